"""C05 -- the indexed heap is a correct priority queue.

(1) inductive step: arbitrary heap state satisfying the representation invariant I (symbolic p, pos,
    cost, color; `last` concrete per configuration), ONE operation with symbolic arguments under the
    documented precondition, assert I and the abstract multiset semantics afterwards.  Together with
    the base case (Heap(N) satisfies I) this covers operation histories of any length for the
    capacities explored.
(2) bounded histories from the empty heap with symbolic costs and a ghost set: validates that I is
    reachable (not vacuous / not too strong) and states the exactly-once clause directly.
"""
from __future__ import annotations

import z3

from symx import core
from symx.core import SymList, SymInt, SymReal, to_int, to_real, zterm
from . import common

WHITE, GRAY, BLACK = 0, 1, 2


def _better(policy, a, b):
    """a is at least as good as b (may sit above it)"""
    return a <= b if policy == "min" else a >= b


def invariant(N, last, p, pos, color, cost, policy):
    """representation invariant as a z3 formula over state terms (lists of z3 terms)"""
    cl = []
    for i in range(N):
        if i <= last:
            cl.append(z3.And(p[i] >= 0, p[i] < N))
        else:
            cl.append(p[i] == -1)
    if last >= 1:
        cl.append(z3.Distinct([p[i] for i in range(last + 1)]))
    for i in range(last + 1):
        for e in range(N):
            cl.append(z3.Implies(p[i] == e, pos[e] == i))
    for e in range(N):
        inq = z3.Or([p[i] == e for i in range(last + 1)]) if last >= 0 else z3.BoolVal(False)
        cl.append((color[e] == GRAY) == inq)
        cl.append(z3.And(color[e] >= WHITE, color[e] <= BLACK))
        # never-queued elements keep pos = -1; a removed element has pos = -1, or 0 when it was the
        # only queued element at its removal (remove() re-writes pos[p[0]] = 0 after clearing it)
        cl.append(z3.Implies(color[e] == WHITE, pos[e] == -1))
        cl.append(z3.Implies(color[e] == BLACK, z3.Or(pos[e] == -1, pos[e] == 0)))
    for i in range(1, last + 1):
        d = (i - 1) // 2
        cl.append(_better(policy, cost_at(cost, p[d], N), cost_at(cost, p[i], N)))
    return z3.And(cl)


def cost_at(cost, e, N):
    acc = cost[N - 1]
    for k in range(N - 2, -1, -1):
        acc = z3.If(e == k, cost[k], acc)
    return acc


def in_queue(p, last, x):
    return z3.Or([p[i] == x for i in range(last + 1)]) if last >= 0 else z3.BoolVal(False)


def state_terms(h, N):
    p = [zterm(x) for x in h.p]
    pos = [zterm(x) for x in h.pos]
    color = [zterm(x) for x in h.color]
    cost = [to_real(x) for x in h.cost]
    return p, pos, color, cost


def make_step_harness(cfg, tw):
    N, policy, last, op = cfg["N"], cfg["policy"], cfg["last"], cfg["op"]
    Heap = tw.mod("opfython.core.heap").Heap

    def harness():
        eng = core.engine()
        h = Heap(N, policy)
        p0 = [eng.int("p%d" % i) for i in range(N)]
        pos0 = [eng.int("pos%d" % i, -1, N - 1) for i in range(N)]
        col0 = [eng.int("col%d" % i) for i in range(N)]
        cost0 = [eng.real("c%d" % i) for i in range(N)]
        zp, zpos, zcol, zcost = [x.e for x in p0], [x.e for x in pos0], [x.e for x in col0], [x.e for x in cost0]
        eng.assume(invariant(N, last, zp, zpos, zcol, zcost, policy))
        h.p = SymList(p0)
        h.pos = SymList(pos0)
        h.color = SymList(col0)
        h.cost = SymList(cost0)
        h.last = last
        pre = dict(p=zp, pos=zpos, color=zcol, cost=zcost, last=last)
        arg = {}
        if op == "insert":
            e = eng.int("e", 0, N - 1)
            # precondition: the element is not queued -- never queued (WHITE) or already returned (BLACK: the
            # statement quantifies over every interleaving, so an identifier may be inserted again)
            eng.assume(cost_at(zcol, e.e, N) != GRAY)
            arg["e"] = e
            ret = h.insert(e)
        elif op == "remove":
            ret = h.remove()
        elif op == "update":
            e = eng.int("e", 0, N - 1)
            c = eng.real("newcost")
            ce = cost_at(zcol, e.e, N)
            # documented precondition: element not BLACK; a queued element only improves; a WHITE one needs room
            eng.assume(ce != BLACK)
            eng.assume(z3.Implies(ce == GRAY, _better(policy, c.e, cost_at(zcost, e.e, N))))
            if last == N - 1:
                eng.assume(ce == GRAY)
            arg["e"] = e
            arg["c"] = c
            ret = h.update(e, c)
        elif op == "update_black":
            e = eng.int("e", 0, N - 1)
            c = eng.real("newcost")
            eng.assume(cost_at(zcol, e.e, N) == BLACK)
            arg["e"] = e
            arg["c"] = c
            ret = h.update(e, c)
        else:
            raise RuntimeError(op)
        return dict(h=h, pre=pre, arg=arg, ret=ret)
    return harness


def payload(eng, m, cfg, out):
    ev = lambda t: eng.eval_model(m, core.wrap(t)) if not isinstance(t, (int, float)) else t
    pre = out["pre"]
    st = dict(p=[ev(x) for x in pre["p"]], pos=[ev(x) for x in pre["pos"]], color=[ev(x) for x in pre["color"]],
              cost=[common.fraction_to_float(ev(x)) for x in pre["cost"]], last=pre["last"])
    arg = {k: common.fraction_to_float(eng.eval_model(m, v)) for k, v in out["arg"].items()}
    return dict(kind="heap_step", cfg=cfg, state=st, arg=arg)


def step_obligations(eng, cfg, out, info):
    N, policy, last, op = cfg["N"], cfg["policy"], cfg["last"], cfg["op"]
    h = out["h"]
    pre = out["pre"]
    ret = out["ret"]
    if not isinstance(h.last, int):
        eng.check("last-is-concrete", False, info)
        return
    L = h.last
    ok_range = -1 <= L < N
    eng.check("last-in-range", ok_range, info)
    if not ok_range or len(h.p) != N or len(h.pos) != N or len(h.color) != N or len(h.cost) != N:
        eng.check("arrays-keep-size", False, info)
        return
    p, pos, color, cost = state_terms(h, N)
    eng.check("invariant-preserved", invariant(N, L, p, pos, color, cost, policy), info)
    q0 = lambda x: in_queue(pre["p"], last, x)
    q1 = lambda x: in_queue(p, L, x)
    # truthful emptiness / fullness after the operation
    eng.check("is_empty-truthful", bool(h.is_empty()) == (L == -1), info)
    eng.check("is_full-truthful", bool(h.is_full()) == (L == N - 1), info)
    same_costs = z3.And([cost[k] == pre["cost"][k] for k in range(N)])
    if op == "insert":
        e = out["arg"]["e"].e
        if last == N - 1:
            eng.check("insert-on-full-reports-failure", ret is False, info)
            eng.check("insert-on-full-leaves-state", z3.And(
                [p[k] == pre["p"][k] for k in range(N)] + [color[k] == pre["color"][k] for k in range(N)] +
                [same_costs, z3.BoolVal(L == last)]), info)
        else:
            eng.check("insert-reports-success", ret is True, info)
            eng.check("insert-grows-by-one", L == last + 1, info)
            for x in range(N):
                eng.check("insert-queued-set[%d]" % x, q1(x) == z3.Or(q0(x), e == x), info)
                eng.check("insert-colours[%d]" % x,
                          color[x] == z3.If(e == x, z3.IntVal(GRAY), pre["color"][x]), info)
            eng.check("insert-keeps-costs", same_costs, info)
    elif op == "remove":
        if last == -1:
            eng.check("remove-on-empty-reports-failure", ret is False, info)
            eng.check("remove-on-empty-leaves-state", z3.And(
                [p[k] == pre["p"][k] for k in range(N)] + [color[k] == pre["color"][k] for k in range(N)] +
                [same_costs, z3.BoolVal(L == last)]), info)
        else:
            if isinstance(ret, bool):
                eng.check("remove-returns-element", False, info)
                return
            r = zterm(ret)
            eng.check("remove-shrinks-by-one", L == last - 1, info)
            eng.check("removed-was-queued", q0(r), info)
            rc = cost_at(pre["cost"], r, N)
            for x in range(N):
                eng.check("removed-is-extremal[%d]" % x,
                          z3.Implies(q0(x), _better(policy, rc, pre["cost"][x])), info)
                eng.check("remove-queued-set[%d]" % x, q1(x) == z3.And(q0(x), r != x), info)
                eng.check("remove-colours[%d]" % x,
                          color[x] == z3.If(r == x, z3.IntVal(BLACK), pre["color"][x]), info)
            eng.check("remove-keeps-costs", same_costs, info)
    elif op in ("update", "update_black"):
        e = out["arg"]["e"].e
        c = out["arg"]["c"].e
        for x in range(N):
            eng.check("update-costs[%d]" % x, cost[x] == z3.If(e == x, c, pre["cost"][x]), info)
            if op == "update":
                eng.check("update-queued-set[%d]" % x, q1(x) == z3.Or(q0(x), e == x), info)
                eng.check("update-colours[%d]" % x,
                          color[x] == z3.If(e == x, z3.IntVal(GRAY), pre["color"][x]), info)
            else:
                eng.check("update-black-queued-set[%d]" % x, q1(x) == q0(x), info)
                eng.check("update-black-colours[%d]" % x, color[x] == pre["color"][x], info)


# ---------------------------------------------------------------------------
# bounded histories from the empty heap (ghost set oracle)

def make_history_harness(cfg, tw):
    N, policy, Lops = cfg["N"], cfg["policy"], cfg["L"]
    Heap = tw.mod("opfython.core.heap").Heap

    def harness():
        eng = core.engine()
        h = Heap(N, policy)
        queued = {}            # element -> current cost (symbolic)
        done = []              # removed elements
        inserted = []
        trace = []
        nc = [0]

        def info(m):
            ops = []
            for t in trace:
                ops.append([t[0], t[1] if len(t) > 1 else None,
                            common.fraction_to_float(eng.eval_model(m, t[2])) if len(t) > 2 else None])
            return dict(kind="heap_history", cfg=cfg, ops=ops)

        def chk(name, prop):
            eng.check_now(name, prop, info)

        p, pos, color, cost = state_terms(h, N)
        chk("base-case-invariant", invariant(N, h.last, p, pos, color, cost, policy))

        def newcost():
            nc[0] += 1
            return eng.real("k%d" % nc[0])

        for step in range(Lops):
            kind = eng.choose(3, "op%d" % step)      # 0 insert/update-white, 1 update-gray, 2 remove
            if kind == 0:
                e = eng.choose(N, "el%d" % step)
                if e in queued:
                    raise core.PathAbort()           # precondition: element not queued
                c = newcost()
                use_update = eng.choose(2, "how%d" % step)
                full = len(queued) == N
                if use_update:
                    if full or e in done:            # update() queues WHITE elements only
                        raise core.PathAbort()
                    h.update(e, c)
                    ok = True
                else:
                    h.cost[e] = c
                    ok = h.insert(e)
                trace.append(("update_white" if use_update else "insert", e, c))
                chk("history-insert-result[%d]" % step, (ok is True) == (not full))
                if not full:
                    queued[e] = c
                    inserted.append(e)
            elif kind == 1:
                if not queued:
                    raise core.PathAbort()
                els = sorted(queued)
                e = els[eng.choose(len(els), "el%d" % step)]
                c = newcost()
                eng.assume(_better(policy, c.e, to_real(queued[e])))
                h.update(e, c)
                queued[e] = c
                trace.append(("update", e, c))
            else:
                r = h.remove()
                trace.append(("remove",))
                if not queued:
                    chk("history-remove-empty[%d]" % step, r is False)
                else:
                    if isinstance(r, bool) or not isinstance(r, int):
                        chk("history-remove-returns-int[%d]" % step, False)
                        raise core.PathAbort()
                    chk("history-removed-queued[%d]" % step, r in queued)
                    if r in queued:
                        rc = to_real(queued[r])
                        for x, cx in queued.items():
                            chk("history-removed-extremal[%d,%d]" % (step, x), _better(policy, rc, to_real(cx)))
                        del queued[r]
                        done.append(r)
            chk("history-empty-truthful[%d]" % step, bool(h.is_empty()) == (len(queued) == 0))
            chk("history-full-truthful[%d]" % step, bool(h.is_full()) == (len(queued) == N))
            p, pos, color, cost = state_terms(h, N)
            if isinstance(h.last, int) and -1 <= h.last < N:
                chk("history-invariant[%d]" % step, invariant(N, h.last, p, pos, color, cost, policy))
            else:
                chk("history-last-range[%d]" % step, False)
        # drain: every inserted element comes back exactly once
        while queued:
            r = h.remove()
            if isinstance(r, bool) or r not in queued:
                chk("drain-returns-queued", False)
                break
            rc = to_real(queued[r])
            for x, cx in queued.items():
                chk("drain-extremal[%d]" % x, _better(policy, rc, to_real(cx)))
            del queued[r]
            done.append(r)
        chk("exactly-once", sorted(done) == sorted(inserted))     # multiset: one return per insertion
        chk("empty-after-drain", bool(h.is_empty()) is True and h.remove() is False)
        return dict(trace=trace)
    return harness


def run_config(cfg):
    common.bootstrap()
    tw = common.get_twin()
    if cfg["kind"] == "step":
        harness = make_step_harness(cfg, tw)

        def on_leaf(eng, out):
            info = lambda m: payload(eng, m, cfg, out)
            step_obligations(eng, cfg, out, info)

        def witness(eng, m, out):
            pl = payload(eng, m, cfg, out)
            h = out["h"]
            ev = lambda x: common.fraction_to_float(eng.eval_model(m, x))
            r = out["ret"]
            pl["expected"] = dict(p=[ev(x) for x in h.p], color=[ev(x) for x in h.color], last=h.last,
                                  cost=[ev(x) for x in h.cost],
                                  ret=(r if isinstance(r, bool) or r is None else ev(r)))
            return pl
        return common.explore(cfg, harness, twin=tw, on_leaf=on_leaf, witness_fn=witness,
                              witness_stride=cfg.get("wstride", 0), deadline_s=cfg.get("deadline_s", 1200),
                              seed=cfg.get("seed", 0))
    harness = make_history_harness(cfg, tw)
    return common.explore(cfg, harness, twin=tw, deadline_s=cfg.get("deadline_s", 1200), seed=cfg.get("seed", 0))
