"""C16 -- the neighbourhood size chosen by training is the best candidate."""
RUN = ("checks.knn", "run_config")


def configs(tier, seed):
    cfgs = []
    top = 5 if tier == "quick" else 8
    for max_k in range(1, top + 1):
        cfgs.append(dict(kind="select", model="knn", max_k=max_k, weight=2 ** max_k, wstride=1))
        for min_k in range(1, max_k + 1):
            cfgs.append(dict(kind="select", model="uns", min_k=min_k, max_k=max_k, weight=2 ** (max_k - min_k), wstride=1))
    # the criterion of the unsupervised model against its definition (the accuracy criterion is C20's subject)
    for n, k in ([(2, 1), (3, 1), (3, 2)] if tier == "quick" else [(2, 1), (3, 1), (3, 2), (4, 1), (4, 2)]):
        for branch in ("pre", "fn"):
            cfgs.append(dict(kind="cut", n=n, k=k, branch=branch, clusters=2 if n < 4 else 3, logic="fresh",
                             weight=(n ** n) * 40, timeout_ms=60000))
    # the real KNN fit() end to end: each candidate k must be scored on its own predictions for the validation samples
    # (with their identifiers when distances are pre-computed), and the kept k is the least arg-max of those scores
    for n, nv, mk, labs, vl, branch, ival in ([(3, 1, 2, [0, 1, 0], [1], "pre", [2]), (3, 1, 2, [0, 1, 0], [1], "fn", None)] if tier == "quick" else
                                             [(3, 1, 2, [0, 1, 0], [1], "pre", [2]), (3, 1, 2, [0, 1, 0], [1], "fn", None),
                                              (3, 2, 2, [0, 1, 1], [1, 0], "pre", [2, 1]), (4, 1, 2, [0, 1, 1, 0], [1], "pre", [3])]):
        cfgs.append(dict(kind="e2e", model="knn", n=n, nv=nv, max_k=mk, labels=labs, vlabels=vl, branch=branch, ival=ival,
                         logic="fresh", weight=(n ** n) * 500 * mk, deadline_s=2400))
    # the training samples stand for permuted rows of a larger distance table (Node.idx != position)
    for n, k, idx in ([(2, 1, [2, 0]), (3, 1, [3, 0, 2])] if tier == "quick" else
                      [(2, 1, [2, 0]), (3, 1, [3, 0, 2]), (3, 2, [1, 3, 0]), (4, 1, [2, 4, 0, 1])]):
        for branch in ("pre", "fn"):
            cfgs.append(dict(kind="cut", n=n, k=k, branch=branch, idx=idx, clusters=2 if n < 4 else 3, logic="fresh",
                             weight=(n ** n) * 40, timeout_ms=60000))
    return cfgs


def signature(prop, cfg, viol):
    from .driver import strip_idx
    return "%s:%s:%s" % (prop, cfg.get("model"), strip_idx(viol["name"]))


def describe(v, tier):
    v.bounds = dict(max_k="<= 5 (quick) / <= 8 (thorough), every min_k <= max_k",
                    normalised_cut="definition checked on injected graphs: n<=3, k<=2, every neighbour choice and 2-clustering (quick) / n<=4, 3 clusters (thorough), symbolic asymmetric distances (zeros included); also with the samples standing for permuted rows of a larger table (Node.idx != position)")
    v.assumptions = ["the criterion is an environment stub: each evaluation returns an arbitrary real (accuracy in [0,1]; "
                     "cut in [0, 1e6]), which over-approximates every data set; arc creation / pdf / clustering / predict are recording no-ops",
                     "the criteria themselves are checked by C20 (accuracy)"]
    v.outside = ["max_k > 8", "the normalised cut on graphs with more than 3 (quick) / 4 (thorough) nodes"]
    v.stubs = ["opfython.math.general.opf_accuracy, UnsupervisedOPF._normalized_cut -> nondeterministic stubs",
               "KNNSubgraph.create_arcs/calculate_pdf/destroy_arcs, _clustering, predict -> recording no-ops"]
