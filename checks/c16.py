"""C16 -- the neighbourhood size chosen by training is the best candidate."""
RUN = ("checks.knn", "run_config")


def configs(tier, seed):
    cfgs = []
    top = 5 if tier == "quick" else 8
    for max_k in range(1, top + 1):
        cfgs.append(dict(kind="select", model="knn", max_k=max_k, weight=2 ** max_k))
        for min_k in range(1, max_k + 1):
            cfgs.append(dict(kind="select", model="uns", min_k=min_k, max_k=max_k, weight=2 ** (max_k - min_k)))
    return cfgs


def signature(prop, cfg, viol):
    from .driver import strip_idx
    return "%s:%s:%s" % (prop, cfg.get("model"), strip_idx(viol["name"]))


def describe(v, tier):
    v.bounds = dict(max_k="<= 5 (quick) / <= 8 (thorough), every min_k <= max_k")
    v.assumptions = ["the criterion is an environment stub: each evaluation returns an arbitrary real (accuracy in [0,1]; "
                     "cut in [0, 1e6]), which over-approximates every data set; arc creation / pdf / clustering / predict are recording no-ops",
                     "the criteria themselves are checked by C20 (accuracy)"]
    v.outside = ["max_k > 8", "the value of the normalised cut itself"]
    v.stubs = ["opfython.math.general.opf_accuracy, UnsupervisedOPF._normalized_cut -> nondeterministic stubs",
               "KNNSubgraph.create_arcs/calculate_pdf/destroy_arcs, _clustering, predict -> recording no-ops"]
