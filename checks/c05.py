"""C05 -- the indexed heap is a correct priority queue for every operation sequence."""
RUN = ("checks.heap", "run_config")
MAX_WITNESSES = 150


def configs(tier, seed):
    cfgs = []
    maxN = 7 if tier == "quick" else 15
    for N in range(1, maxN + 1):
        for policy in ("min", "max"):
            for last in range(-1, N):
                for op in ("insert", "remove", "update", "update_black"):
                    if op == "update" and last == -1 and N == 0:
                        continue
                    cfgs.append(dict(kind="step", N=N, policy=policy, last=last, op=op, weight=N * N * (last + 2),
                                     wstride=3 if N <= 4 else 17))
    hist = [(1, 4), (2, 5), (3, 5)] if tier == "quick" else [(1, 6), (2, 7), (3, 7), (4, 6)]
    for N, L in hist:
        for policy in ("min", "max"):
            cfgs.append(dict(kind="history", N=N, L=L, policy=policy, weight=(3 * N) ** L))
    return cfgs


def compare(w, rr):
    from .driver import default_compare
    if rr.get("ok") and rr["obs"].get("pre_invariant"):
        return "pre-state from the path model violates the invariant on the real object: %s" % rr["obs"]["pre_invariant"]
    return default_compare(w, rr)


def signature(prop, cfg, viol):
    from .driver import strip_idx
    return "%s:%s:%s:%s" % (prop, cfg.get("kind"), cfg.get("op", "history"), strip_idx(viol["name"]))


def describe(v, tier):
    v.bounds = dict(capacity="1..7 (quick) / 1..15 (thorough), both policies",
                    inductive_step="arbitrary invariant-satisfying pre-state (symbolic p, pos, color, cost), every fill level, one operation with symbolic arguments",
                    histories="all operation sequences of length <= 5 on capacity <= 3 (quick) / <= 7 on capacity <= 4 (thorough) from the empty heap, symbolic costs")
    v.assumptions = ["representation invariant I (DESIGN.md C05); pos[] of non-queued elements unconstrained",
                     "insert precondition: the element is not queued (never queued, or already returned and inserted again)",
                     "update precondition from the statement: element not BLACK; queued cost only improves in the policy's direction; WHITE element needs room",
                     "costs are arbitrary reals (no NaN)"]
    v.outside = ["capacity > 15", "updates that worsen a queued element's cost", "NaN costs"]
    v.stubs = ["none: heap.py is pure python; only opfython.utils.logging is replaced by a null logger"]
