"""real-package handlers for the k-NN family (C12, C13, C14, C09, C04-KNN, C16)."""
import itertools
import math

import numpy as np

NIL = -1
MAX_DENSITY = 1000
EPS = 1e-20


def _f(x):
    if isinstance(x, (np.floating, float)):
        return float(x)
    if isinstance(x, (np.integer, int)):
        return int(x)
    return x


def _graph(branch, n, D, labels=None, idx=None):
    from opfython.subgraphs.knn import KNNSubgraph
    ids = idx if idx else list(range(n))
    if branch == "pre":
        X = np.zeros((n, 1))
        I = np.array(ids, dtype=int)
    else:
        X = np.array([[float(i)] for i in ids])
        I = None
    Y = np.array(labels, dtype=int) if labels is not None else None
    g = KNNSubgraph(X, Y, I)
    if branch == "pre":
        args = (None, True, np.array(D, dtype=float))
    else:
        Dl = [list(map(float, r)) for r in D]
        args = (lambda a, b: Dl[int(a[0])][int(b[0])], False, None)
    return g, args


def judge_arcs(g, D, k, maxd, n):
    bad = []
    want = min(k, n - 1)
    allmax = []
    for i in range(n):
        adj = [int(a) for a in g.nodes[i].adjacency]
        if len(adj) != want or len(set(adj)) != len(adj) or any(a == i or not 0 <= a < n for a in adj):
            bad.append("adjacency-has-min(k,n-1)-distinct-others[%d]" % i)
            continue
        ds = [D[i][a] for a in adj]
        if ds != sorted(ds):
            bad.append("neighbours-ascending[%d]" % i)
        if adj:
            if any(D[i][j] < ds[-1] for j in range(n) if j != i and j not in adj):
                bad.append("no-excluded-sample-closer[%d]" % i)
            if g.nodes[i].radius != ds[-1]:
                bad.append("radius-is-largest[%d]" % i)
            allmax.append(ds[-1])
    if bad:
        return bad
    for l in range(k):
        if l < want:
            if maxd[l] != max(D[i][int(g.nodes[i].adjacency[l])] for i in range(n)):
                bad.append("per-rank-maximum[%d]" % l)
        elif maxd[l] != 0:
            bad.append("per-rank-maximum-unused[%d]" % l)
    if allmax:
        tm = max(allmax)
        if g.density != (1 if tm < 0.00001 else tm):
            bad.append("density-bound")
    return bad


def run_arcs(req):
    cfg = req["cfg"]
    n, k, branch = cfg["n"], cfg["k"], cfg["branch"]
    D = req["D"]
    rows = cfg.get("idx") or list(range(n))
    g, args = _graph(branch, n, D, idx=cfg.get("idx"))
    if cfg.get("k1") is not None:
        g.create_arcs(cfg["k1"], *args)
        g.destroy_arcs()
    maxd = g.create_arcs(k, *args)
    D = [[D[rows[i]][rows[j]] for j in range(n)] for i in range(n)]
    obs = dict(adj=[[int(a) for a in nd.adjacency] for nd in g.nodes], radius=[_f(nd.radius) for nd in g.nodes],
               density=_f(g.density), maxd=[_f(x) for x in maxd])
    return dict(obs=obs, violated=judge_arcs(g, D, k, maxd, n))


def _inject_adjacency(g, pattern, k):
    n = g.n_nodes
    for i in range(n):
        others = [j for j in range(n) if j != i]
        if pattern == "next":
            adj = [(i + 1 + t) % n for t in range(n - 1)][:k]
        else:
            adj = list(reversed(others))[:k]
        g.nodes[i].adjacency = [float(a) for a in adj]


def run_pdf(req):
    cfg = req["cfg"]
    n, k, branch = cfg["n"], cfg["k"], cfg["branch"]
    D = req["D"]
    g, args = _graph(branch, n, D)
    _inject_adjacency(g, cfg.get("pattern", "next"), k)
    g.density = req["bound"]
    g.calculate_pdf(k, *args)
    const = 2 * req["bound"] / 9
    bad = []
    raw = []
    for i in range(n):
        adj = [int(a) for a in g.nodes[i].adjacency[:k]]
        raw.append(sum(math.exp(-D[i][j] / const) for j in adj) / (k + 1))
    mn, mx = min(raw), max(raw)
    close = lambda a, b: math.isclose(a, b, rel_tol=1e-9, abs_tol=1e-12)
    if not close(g.constant, const):
        bad.append("constant-is-2/9-of-bound")
    if not close(g.min_density, mn):
        bad.append("min-density-is-true-minimum")
    if not close(g.max_density, mx):
        bad.append("max-density-is-true-maximum")
    for i in range(n):
        want = MAX_DENSITY if mn == mx else (MAX_DENSITY - 1) * (raw[i] - mn) / (mx - mn) + 1
        if not close(g.nodes[i].density, want):
            bad.append("density-affine-map[%d]" % i)
        if not close(g.nodes[i].cost, g.nodes[i].density - 1):
            bad.append("initial-cost-is-density-minus-1[%d]" % i)
    return dict(obs=dict(density=[_f(nd.density) for nd in g.nodes]), violated=bad)


def run_emh(req):
    cfg = req["cfg"]
    n = cfg["n"]
    g, _ = _graph("fn", n, [[0.0] * n for _ in range(n)])
    mdl = req["model"]

    def val(name):
        s = mdl[name]
        if "/" in s:
            a, b = s.split("/")
            return int(a) / int(b)
        return float(s)
    dens = [val("rho%d" % i) for i in range(n)]
    cost = [val("c%d" % i) for i in range(n)]
    h = val("h")
    for i in range(n):
        g.nodes[i].density = dens[i]
        g.nodes[i].cost = cost[i]
    g.eliminate_maxima_height(h)
    bad = []
    for i in range(n):
        want = max(dens[i] - h, 0) if h > 0 else cost[i]
        if g.nodes[i].cost != want:
            bad.append("eliminate-maxima[%d]" % i)
    return dict(obs=dict(cost=[_f(nd.cost) for nd in g.nodes]), violated=bad)


def chain(pred, i, n):
    seen = [i]
    while pred[seen[-1]] != NIL:
        nxt = pred[seen[-1]]
        if nxt in seen or not (0 <= nxt < n):
            return None
        seen.append(nxt)
    return seen


def run_cluster(req):
    from opfython.models.knn_supervised import KNNSupervisedOPF
    from opfython.models.unsupervised import UnsupervisedOPF
    cfg = req["cfg"]
    n, k, model = cfg["n"], cfg["k"], cfg["model"]
    labels = [int(x) for x in req["labels"]]
    dens = req["dens"]
    rows = cfg.get("idx")
    M = (max(rows) + 1) if rows else n
    g, _ = _graph("pre" if rows else "fn", n, [[0.0] * M for _ in range(M)], labels, idx=rows)
    opf = KNNSupervisedOPF(max_k=max(k, 1)) if model == "knn" else UnsupervisedOPF(min_k=1, max_k=max(k, 1))
    opf.subgraph = g
    for i in range(n):
        g.nodes[i].density = dens[i]
        g.nodes[i].cost = dens[i] - 1
        g.nodes[i].adjacency = [float(a) for a in req["adjs"][i]]
    if model == "knn":
        opf._clustering(force_prototype=cfg.get("force", False))
    else:
        opf._clustering(k)
        if cfg.get("propagate"):
            opf.propagate_labels()
    nodes = g.nodes
    pred = [int(nd.pred) for nd in nodes]
    bad = []
    roots = []
    for i in range(n):
        ch = chain(pred, i, n)
        if ch is None:
            bad.append("chain-acyclic[%d]" % i)
            return dict(obs={}, violated=bad)
        roots.append(ch[-1])
        if nodes[i].root != ch[-1]:
            bad.append("recorded-root-is-chain-root[%d]" % i)
    for i in range(n):
        r = roots[i]
        c = nodes[i].cost
        if model == "uns":
            if nodes[i].cluster_label != nodes[r].cluster_label:
                bad.append("cluster-id-equals-root's[%d]" % i)
            if cfg.get("propagate") and nodes[i].predicted_label != labels[r]:
                bad.append("propagated-label-is-root's-true-label[%d]" % i)
        else:
            if nodes[i].predicted_label != labels[r]:
                bad.append("assigned-label-is-root's-true-label[%d]" % i)
            if cfg.get("force") and nodes[i].predicted_label != labels[i]:
                bad.append("force-prototype-keeps-own-label[%d]" % i)
        if pred[i] == NIL:
            if c != dens[i]:
                bad.append("root-cost-is-density[%d]" % i)
        else:
            p = pred[i]
            lim = (nodes[p].n_plateaus + k) if model == "uns" else len(nodes[p].adjacency)
            if i not in [int(a) for a in nodes[p].adjacency[:lim]]:
                bad.append("sample-was-neighbour-of-its-predecessor[%d]" % i)
            if c != min(nodes[p].cost, dens[i]):
                bad.append("cost-is-min(cost(pred),density)[%d]" % i)
            if not c > dens[i] - 1:
                bad.append("cost-above-density-minus-1[%d]" % i)
        if not dens[i] < dens[r] + 1:
            bad.append("density-below-root's-plus-1[%d]" % i)
    rootset = sorted(set(roots))
    if model == "uns":
        if g.n_clusters != len(rootset):
            bad.append("n_clusters-is-number-of-roots")
        if sorted(nodes[r].cluster_label for r in rootset) != list(range(len(rootset))):
            bad.append("root-ids-are-0..n_clusters-1")
    if sorted(g.idx_nodes) != list(range(n)):
        bad.append("every-sample-conquered-once")
    obs = dict(pred=pred, root=[_f(nd.root) for nd in nodes], cost=[_f(nd.cost) for nd in nodes],
               plabel=[_f(nd.predicted_label) for nd in nodes], cluster=[_f(nd.cluster_label) for nd in nodes],
               order=[_f(x) for x in g.idx_nodes])
    return dict(obs=obs, violated=bad)


def run_predict(req):
    from opfython.models.knn_supervised import KNNSupervisedOPF
    from opfython.models.unsupervised import UnsupervisedOPF
    from opfython.models.supervised import SupervisedOPF
    from opfython.core import Subgraph
    cfg = req["cfg"]
    n, k, model, branch, nq, batches = cfg["n"], cfg["k"], cfg["model"], cfg["branch"], cfg["nq"], cfg["batches"]
    T = req["T"]
    st = req["st"]
    rows = list(cfg.get("idx") or range(n))
    qrows = list(cfg.get("qidx") or range(n, n + nq))

    def build(cls, **kw):
        opf = cls(**kw)
        if branch == "pre":
            opf.pre_computed_distance = True
            opf.pre_distances = np.array(T, dtype=float)
        else:
            opf.distance_fn = lambda a, b: float(T[int(a[0])][int(b[0])])
        return opf

    def data(ids):
        m = len(ids)
        if branch == "pre":
            return np.zeros((m, 1)), np.array(ids, dtype=int)
        return np.array([[float(t)] for t in ids]).reshape(m, 1), None

    def build_sup(rel=None):
        o = build(SupervisedOPF)
        X, I = data(rows)
        gg = Subgraph(X, np.zeros(n, dtype=int), I)
        gg.idx_nodes = [int(x) for x in st["order"]]
        for i in range(n):
            gg.nodes[i].cost = st["cost"][i]
            gg.nodes[i].predicted_label = int(st["plab"][i])
            if rel is not None:
                gg.nodes[i].relevant = int(rel[i])
        gg.trained = True
        o.subgraph = gg
        return o, gg

    fresh = None
    if model == "sup":
        if st.get("rel") is not None:
            fresh = []
            for q in range(nq):
                o2, _ = build_sup()
                Xq, Iq = data([qrows[q]])
                fresh.append(int(o2.predict(Xq, Iq)[0]))
        opf, g = build_sup(st.get("rel"))
    else:
        opf = build(KNNSupervisedOPF, max_k=k) if model == "knn" else build(UnsupervisedOPF, min_k=1, max_k=k)
        g, _ = _graph(branch, n, T, [0] * n, idx=rows)
        g.best_k = k
        g.constant = st["const"]
        g.min_density = st["mind"]
        g.max_density = st["maxd"]
    for i in range(n):
        g.nodes[i].cost = st["cost"][i]
        g.nodes[i].predicted_label = int(st["plab"][i])
        if model != "sup":
            g.nodes[i].cluster_label = int(st["clus"][i])
    g.trained = True
    opf.subgraph = g
    results = []
    for b in batches:
        Xq, Iq = data([qrows[q] for q in b])
        r = opf.predict(Xq, Iq)
        if model == "uns":
            results.append([[int(x) for x in r[0]], [int(x) for x in r[1]]])
        else:
            results.append([int(x) for x in r])
    bad = []

    def out_of(bi, pos):
        r = results[bi]
        if model == "uns":
            return r[0][pos], r[1][pos]
        return r[pos], None

    if cfg["prop"] == "C03":
        for bi, b in enumerate(batches):
            for pos, q in enumerate(b):
                lab, _ = out_of(bi, pos)
                vals = [max(st["cost"][t], T[rows[t]][qrows[q]]) for t in range(n)]
                mn = min(vals)
                if lab not in [int(st["plab"][t]) for t in range(n) if vals[t] == mn]:
                    bad.append("prediction-is-an-exhaustive-minimiser[b%d,p%d]" % (bi, pos))
    elif cfg["prop"] == "C09":
        first = {}
        for bi, b in enumerate(batches):
            for pos, q in enumerate(b):
                o = out_of(bi, pos)
                if q not in first:
                    first[q] = o
                    if fresh is not None and o[0] != fresh[q]:
                        bad.append("same-label-as-on-a-never-used-model[q%d]" % q)
                elif first[q] != o:
                    bad.append("same-label-at-any-batch-position[q%d: b%d.p%d]" % (q, bi, pos))
    else:
        kk = min(k, n)
        for bi, b in enumerate(batches):
            for pos, q in enumerate(b):
                lab, cl = out_of(bi, pos)
                d = [T[qrows[q]][rows[t]] for t in range(n)]
                ok = False
                for N in itertools.combinations(range(n), kk):
                    rest = [t for t in range(n) if t not in N]
                    if any(d[t] < d[s] for t in rest for s in N):
                        continue
                    raw = sum(math.exp(-d[t] / st["const"]) for t in N) / k
                    dens = (MAX_DENSITY - 1) * (raw - st["mind"]) / (st["maxd"] - st["mind"] + EPS) + 1
                    vals = {t: min(st["cost"][t], dens) for t in N}
                    best = max(vals.values())
                    for t in N:
                        if vals[t] >= best - 1e-12 * max(1.0, abs(best)):
                            if lab == int(st["plab"][t]) and (cl is None or cl == int(st["clus"][t])):
                                ok = True
                if not ok:
                    bad.append("prediction-follows-knn-max-min-rule[b%d,p%d]" % (bi, pos))
    return dict(obs=dict(results=results), violated=bad)


def run_select(req):
    """replays the selection loops of the real classes with the recorded criterion values injected,
    and -- for the all-zero-accuracy case -- also on a concrete data set through the public API."""
    import opfython.math.general as gmod
    from opfython.models import knn_supervised as km
    from opfython.models import unsupervised as um
    from opfython.subgraphs.knn import KNNSubgraph
    cfg = req["cfg"]
    crit = list(req["crit"])
    calls = []
    bad = []
    obs = {}
    saved = []

    def patch(obj, name, fn):
        saved.append((obj, name, getattr(obj, name)))
        setattr(obj, name, fn)
    try:
        patch(KNNSubgraph, "create_arcs", lambda self, k, *a, **kw: (calls.append(("arcs", k)), np.zeros(k))[1])
        patch(KNNSubgraph, "calculate_pdf", lambda self, k, *a, **kw: calls.append(("pdf", k)))
        X = np.zeros((2, 1))
        Y = np.array([0, 1])
        it = iter(crit)
        if cfg["model"] == "knn":
            patch(km.g, "opf_accuracy", lambda l, p: next(it))
            opf = km.KNNSupervisedOPF(max_k=cfg["max_k"])
            opf._clustering = lambda *a, **kw: calls.append(("cluster", kw.get("force_prototype", False)))
            opf.predict = lambda *a, **kw: [0, 0]
            try:
                opf.fit(X, Y, X, Y)
                best = opf.subgraph.best_k
                mx = max(crit)
                want = min(k for k in range(1, cfg["max_k"] + 1) if crit[k - 1] == mx)
                if best != want:
                    bad.append("best-k-is-least-argmax-of-accuracy")
                fin = [c for c in calls if c[0] in ("arcs", "pdf")][-2:]
                if [c[1] for c in fin] != [want, want]:
                    bad.append("final-arcs-use-best-k")
                obs["best_k"] = best
            except Exception as ex:
                bad.append("selection-does-not-raise")
                obs["error"] = "%s: %s" % (type(ex).__name__, ex)
        else:
            opf = um.UnsupervisedOPF(min_k=cfg["min_k"], max_k=cfg["max_k"])
            cuts = []

            def cut(k):
                cuts.append(k)
                return next(it)
            opf._normalized_cut = cut
            opf._clustering = lambda kk: calls.append(("cluster", kk))
            try:
                opf.fit(X, Y)
                best = opf.subgraph.best_k
                used = crit[:len(cuts)]
                mn = min(used)
                want = min(k for k, c in zip(cuts, used) if c == mn)
                if cuts != list(range(cfg["min_k"], cfg["min_k"] + len(cuts))):
                    bad.append("candidates-evaluated-in-increasing-k-from-min_k")
                if cuts[-1] < cfg["max_k"] and 0.0 not in used:
                    bad.append("early-stop-only-after-zero-cut")
                if any(c == 0 for c in used[:-1]):
                    bad.append("no-evaluation-after-zero-cut")
                if best != want:
                    bad.append("best-k-is-least-argmin-of-evaluated-cuts")
                fin = [c for c in calls if c[0] in ("arcs", "pdf", "cluster")][-3:]
                if [c[1] for c in fin] != [want] * 3:
                    bad.append("final-arcs-uses-best-k")
                obs["best_k"] = best
            except Exception as ex:
                bad.append("selection-does-not-raise")
                obs["error"] = "%s: %s" % (type(ex).__name__, ex)
    finally:
        for obj, name, fn in reversed(saved):
            setattr(obj, name, fn)
    if cfg["model"] == "knn" and crit and all(c == 0 for c in crit):
        # public-API witness: two well separated classes, validation labels swapped => accuracy 0 for every k
        mk = cfg["max_k"]
        Xt = np.array([[0.01 * i] for i in range(mk + 1)] + [[10 + 0.01 * i] for i in range(mk + 1)])
        Yt = np.array([0] * (mk + 1) + [1] * (mk + 1))
        Xv = np.array([[0.005], [10.005]])
        Yv = np.array([1, 0])
        try:
            km.KNNSupervisedOPF(max_k=mk, distance="euclidean").fit(Xt, Yt, Xv, Yv)
            obs["public_api"] = "fit returned"
        except Exception as ex:
            obs["public_api"] = "%s: %s" % (type(ex).__name__, ex)
    return dict(obs=obs, violated=bad)


HANDLERS = {"knn_arcs": run_arcs, "knn_pdf": run_pdf, "knn_emh": run_emh, "knn_cluster": run_cluster,
            "knn_predict": run_predict, "knn_select": run_select}


def run_e2e(req):
    from opfython.models.knn_supervised import KNNSupervisedOPF
    from opfython.models.unsupervised import UnsupervisedOPF
    cfg = req["cfg"]
    n, nv, model, max_k = cfg["n"], cfg.get("nv", 0), cfg["model"], cfg["max_k"]
    labels, vlabels = cfg["labels"], cfg.get("vlabels", [])
    D = [list(map(float, r)) for r in req["D"]]
    table = lambda a, b: D[int(a[0])][int(b[0])]
    X = np.array([[float(i)] for i in range(n)])
    Y = np.array(labels, dtype=int)
    scored = []
    if model == "knn":
        import opfython.models.knn_supervised as km
        opf = KNNSupervisedOPF(max_k=max_k)
        Yv = np.array(vlabels, dtype=int)
        if cfg.get("branch") == "pre":
            opf.pre_computed_distance = True
            opf.pre_distances = np.array([r[:n] for r in D[:n]], dtype=float)
            X = np.zeros((n, 1))
            I = np.arange(n)
            Xv = np.zeros((nv, 1))
            Iv = np.array(cfg["ival"], dtype=int)
        else:
            opf.distance_fn = table
            Xv = np.array([[float(n + i)] for i in range(nv)])
            I = Iv = None
        real_acc = km.g.opf_accuracy

        def spy(a1, a2):
            truth = [int(x) for x in KNNSupervisedOPF.predict(opf, Xv, Iv)]
            scored.append(dict(k=int(opf.subgraph.best_k), labels=[int(x) for x in a1], preds=[int(x) for x in a2],
                               truth=truth, acc=float(real_acc(Yv, np.array(truth)))))
            return real_acc(a1, a2)
        km.g.opf_accuracy = spy
        try:
            opf.fit(X, Y, Xv, Yv, I, Iv)
        finally:
            km.g.opf_accuracy = real_acc
    else:
        opf = UnsupervisedOPF(min_k=1, max_k=max_k)
        opf.distance_fn = table
        opf.fit(X, Y)
        if cfg.get("propagate"):
            opf.propagate_labels()
    g = opf.subgraph
    nodes = g.nodes
    pred = [int(nd.pred) for nd in nodes]
    dens = [float(nd.density) for nd in nodes]
    bad = []
    if model == "knn":
        if [sc["k"] for sc in scored] != list(range(1, max_k + 1)):
            bad.append("every-candidate-k-is-scored-once")
        for sc in scored:
            if sc["labels"] != [int(x) for x in vlabels]:
                bad.append("scored-against-the-validation-labels[k%d]" % sc["k"])
            if sc["preds"] != sc["truth"]:
                bad.append("scored-predictions-are-the-candidate's-validation-predictions[k%d]" % sc["k"])
        if scored and not bad:
            accs = [sc["acc"] for sc in scored]
            want = min(j for j in range(len(accs)) if accs[j] == max(accs)) + 1
            if int(g.best_k) != want:
                bad.append("best-k-is-the-least-argmax-of-validation-accuracy")
    roots = []
    for i in range(n):
        ch = chain(pred, i, n)
        if ch is None:
            bad.append("chain-acyclic[%d]" % i)
            return dict(obs={}, violated=bad)
        roots.append(ch[-1])
        if nodes[i].root != ch[-1]:
            bad.append("recorded-root-is-chain-root[%d]" % i)
    k = g.best_k
    for i in range(n):
        r = roots[i]
        if model == "uns":
            if nodes[i].cluster_label != nodes[r].cluster_label:
                bad.append("cluster-id-equals-root's[%d]" % i)
            if cfg.get("propagate") and nodes[i].predicted_label != labels[r]:
                bad.append("propagated-label-is-root's-true-label[%d]" % i)
        else:
            if nodes[i].predicted_label != labels[r]:
                bad.append("assigned-label-is-root's-true-label[%d]" % i)
            if nodes[i].predicted_label != labels[i]:
                bad.append("force-prototype-keeps-own-label[%d]" % i)
        if pred[i] == NIL:
            if nodes[i].cost != dens[i]:
                bad.append("root-cost-is-density[%d]" % i)
        else:
            p = pred[i]
            if model == "uns" and i not in [int(a) for a in nodes[p].adjacency[:nodes[p].n_plateaus + k]]:
                bad.append("sample-was-neighbour-of-its-predecessor[%d]" % i)
            if model == "knn":
                near = lambda a, b: sum(1 for j in range(n) if j not in (a, b) and D[a][j] < D[a][b]) <= k - 1
                if not (near(p, i) or (near(i, p) and dens[i] == dens[p])):
                    bad.append("sample-was-neighbour-of-its-predecessor[%d]" % i)
            if nodes[i].cost != min(nodes[p].cost, dens[i]):
                bad.append("cost-is-min(cost(pred),density)[%d]" % i)
            if not nodes[i].cost > dens[i] - 1:
                bad.append("cost-above-density-minus-1[%d]" % i)
        if not dens[i] < dens[r] + 1:
            bad.append("density-below-root's-plus-1[%d]" % i)
    rootset = sorted(set(roots))
    if model == "uns":
        if g.n_clusters != len(rootset):
            bad.append("n_clusters-is-number-of-roots")
        if sorted(nodes[r].cluster_label for r in rootset) != list(range(len(rootset))):
            bad.append("root-ids-are-0..n_clusters-1")
    obs = dict(pred=pred, root=[_f(nd.root) for nd in nodes], plabel=[_f(nd.predicted_label) for nd in nodes],
               cluster=[_f(nd.cluster_label) for nd in nodes], best_k=int(k))
    return dict(obs=obs, violated=bad)


HANDLERS["knn_e2e"] = run_e2e


def run_refit(req):
    from opfython.models.knn_supervised import KNNSupervisedOPF
    from opfython.models.unsupervised import UnsupervisedOPF
    from opfython.models.supervised import SupervisedOPF
    cfg = req["cfg"]
    model, n1, n2, labels = cfg["model"], cfg["n1"], cfg["n2"], cfg["labels"]
    D = [list(map(float, r)) for r in req["D"]]
    table = lambda a, b: D[int(a[0])][int(b[0])]

    def mk():
        if model == "uns":
            o = UnsupervisedOPF(min_k=1, max_k=cfg["max_k"])
        elif model == "knn":
            o = KNNSupervisedOPF(max_k=cfg["max_k"])
        elif model == "semi":
            from opfython.models.semi_supervised import SemiSupervisedOPF
            o = SemiSupervisedOPF()
        else:
            o = SupervisedOPF()
        o.distance_fn = table
        return o

    def fit(o, rows):
        X = np.array([[float(i)] for i in rows])
        Y = np.array([labels[i] for i in rows], dtype=int)
        if model == "knn":
            o.fit(X, Y, X, Y)
        elif model == "semi":
            o.fit(X[:-1], Y[:-1], X[-1:])
        else:
            o.fit(X, Y)

    def state(o):
        g = o.subgraph
        s = dict(cost=[float(nd.cost) for nd in g.nodes], pred=[int(nd.pred) for nd in g.nodes],
                 plab=[int(nd.predicted_label) for nd in g.nodes], status=[int(nd.status) for nd in g.nodes],
                 order=[int(x) for x in list(g.idx_nodes)[-g.n_nodes:]], n=int(g.n_nodes))
        if model not in ("sup", "semi"):
            s.update(clus=[int(nd.cluster_label) for nd in g.nodes], root=[int(nd.root) for nd in g.nodes],
                     dens=[float(nd.density) for nd in g.nodes], best_k=int(g.best_k), constant=float(g.constant),
                     mind=float(g.min_density), maxd=float(g.max_density))
        if model == "uns":
            s["n_clusters"] = int(g.n_clusters)
        return s
    mid = cfg.get("mid_predict", False)
    Xq = np.array([[float(max(n1, n2))]])
    used = mk()
    fit(used, [(i + 1) % n1 for i in range(n1)] if mid else list(range(n1)))
    if mid:
        used.predict(Xq)
    fit(used, list(range(n2)))
    fresh = mk()
    fit(fresh, list(range(n2)))
    a, b = state(used), state(fresh)
    if mid:
        a["prediction"] = [int(x) for x in used.predict(Xq)]
        b["prediction"] = [int(x) for x in fresh.predict(Xq)]
    bad = ["refit-equals-fit-of-a-never-used-model:%s" % k for k in b if a[k] != b[k]]
    return dict(obs=dict(used=a, fresh=b), violated=bad)


HANDLERS["knn_refit"] = run_refit


def run_cut(req):
    from opfython.models.unsupervised import UnsupervisedOPF
    cfg = req["cfg"]
    n, k, branch = cfg["n"], cfg["k"], cfg["branch"]
    D = [list(map(float, r)) for r in req["D"]]
    opf = UnsupervisedOPF(min_k=1, max_k=k)
    if branch == "pre":
        opf.pre_computed_distance = True
        opf.pre_distances = np.array(D)
    else:
        opf.distance_fn = lambda a, b: D[int(a[0])][int(b[0])]
    rows = cfg.get("idx") or list(range(n))
    g, _ = _graph(branch, n, D, idx=cfg.get("idx"))
    opf.subgraph = g
    for i in range(n):
        g.nodes[i].adjacency = [float(a) for a in req["adjs"][i]]
        g.nodes[i].cluster_label = int(req["clus"][i])
    g.n_clusters = req["ncl"]
    cut = float(opf._normalized_cut(k))
    total = 0.0
    for l in range(req["ncl"]):
        internal = external = 0.0
        for i in range(n):
            if req["clus"][i] != l:
                continue
            for j in req["adjs"][i]:
                dij = D[rows[i]][rows[j]]
                if dij > 0:
                    if req["clus"][j] == l:
                        internal += 1 / dij
                    else:
                        external += 1 / dij
        if internal + external > 0:
            total += external / (internal + external)
    bad = [] if math.isclose(cut, total, rel_tol=1e-9, abs_tol=1e-12) else ["normalised-cut-matches-its-definition"]
    return dict(obs=dict(cut=cut, want=total), violated=bad)


HANDLERS["knn_cut"] = run_cut
