"""C13 -- density clustering produces a well-formed forest that partitions the samples."""
RUN = ("checks.knn", "run_config")
MAX_WITNESSES = 150


def configs(tier, seed):
    cfgs = []
    sizes = [(2, 1), (3, 1), (3, 2), (4, 1)] if tier == "quick" else [(2, 1), (3, 1), (3, 2), (4, 1), (4, 2), (4, 3), (5, 1)]
    for n, k in sizes:
        w = (n ** n) * 10 ** k
        ws = 7 if n <= 3 else 397
        cfgs.append(dict(kind="cluster", n=n, k=k, model="uns", propagate=True, K=2, weight=w, wstride=ws))
        cfgs.append(dict(kind="cluster", n=n, k=k, model="knn", force=False, K=2, weight=w * 3, wstride=ws))
        cfgs.append(dict(kind="cluster", n=n, k=k, model="knn", force=True, K=2, weight=w * 3, wstride=ws))
    # sample identifiers that are not positions (I_train: permuted rows of a larger table)
    for n, k, idx in ([(3, 1, [3, 0, 2])] if tier == "quick" else [(3, 1, [3, 0, 2]), (3, 2, [1, 4, 0]), (4, 1, [2, 5, 0, 3])]):
        w = (n ** n) * 10 ** k
        cfgs.append(dict(kind="cluster", n=n, k=k, model="uns", propagate=True, K=2, idx=idx, weight=w, wstride=7))
        cfgs.append(dict(kind="cluster", n=n, k=k, model="knn", force=True, K=2, idx=idx, weight=w * 3, wstride=7))
    # the real fit() end to end on a symbolic distance table (several clusterings on one graph)
    e2e = [("uns", 3, 0, 2, [0, 1, 0], []), ("knn", 3, 1, 1, [0, 1, 0], [1]), ("knn", 3, 1, 2, [0, 1, 0], [1])]
    if tier == "thorough":
        e2e += [("uns", 4, 0, 2, [0, 1, 0, 1], []), ("uns", 4, 0, 3, [0, 1, 0, 1], []), ("knn", 3, 1, 2, [0, 0, 1], [1]),
                ("knn", 4, 1, 2, [0, 1, 1, 0], [1])]
    for model, n, nv, mk, labs, vl in e2e:
        cfgs.append(dict(kind="e2e", model=model, n=n, nv=nv, max_k=mk, labels=labs, vlabels=vl, propagate=(model == "uns"),
                         logic="fresh", weight=(n ** n) * 500 * mk, deadline_s=2400))
    return cfgs


def signature(prop, cfg, viol):
    from .driver import strip_idx
    return "%s:%s:%s" % (prop, cfg.get("model"), strip_idx(viol["name"]))


def describe(v, tier):
    v.bounds = dict(unit="arbitrary clean k-NN graph state: n<=3 all k, n=4 k=1 (quick) / n=4 k<=3, n=5 k=1 (thorough)",
                    state="densities symbolic in [1,1000] with ties allowed, cost = density-1, every ordered choice of k distinct non-self neighbours per node, labels symbolic (2 classes)")
    v.assumptions = ["the injected state is the post-condition of create_arcs + calculate_pdf established by C12 "
                     "(k distinct non-self neighbours, 1 <= density <= MAX_DENSITY, cost = density - 1)"]
    v.outside = ["n > 5", "graph states not produced by create_arcs/calculate_pdf"]
    v.stubs = ["numpy -> symx.symnp", "logging -> null logger"]


def conformance(v, tier, seed):
    from . import conform
    return conform.gate(v, [("uns", "log_squared_euclidean"), ("uns", "euclidean"), ("uns", "chi_squared"), ("knn", "manhattan")])
