"""C19 -- a saved and re-loaded model behaves identically to the original."""
from spec import metrics as SPEC
from . import common

RUN = ("checks.persist", "run_config")


def configs(tier, seed):
    cfgs = []
    labs = [[0, 1, 0]] if tier == "quick" else [[0, 1, 0], [0, 0, 1], [0, 1, 1]]
    for model in ("sup", "semi", "knn", "uns"):
        for branch in ("pre", "fn"):
            for labels in labs:
                cfgs.append(dict(model=model, branch=branch, n=3, labels=labels, weight=100))
            if tier == "thorough":
                cfgs.append(dict(model=model, branch=branch, n=4, labels=[0, 1, 0, 1], weight=3000, deadline_s=1500))
        # training rows of the pre-computed table in a non-default order (identifier 0 not first)
        cfgs.append(dict(model=model, branch="pre", n=3, labels=[0, 1, 0], tr=[2, 0, 1], weight=100))
    return cfgs


def conformance(v, tier, seed):
    """the '47 metrics' axis, concretely on the real package: every registry name survives save/load as the
    registry entry of that name (real pickle of real numba dispatchers), for all four model kinds"""
    reqs = []
    for name in sorted(SPEC.CLOSED):
        for model in ("sup", "semi", "knn", "uns"):
            reqs.append(dict(kind="persist", cfg=dict(model=model, branch="fn", n=4, labels=[0, 1, 0, 1], metric=name)))
    resp = common.run_real(reqs)
    badl = []
    for rq, rr in zip(reqs, resp):
        if not rr.get("ok") or rr.get("violated"):
            badl.append((rq["cfg"]["metric"], rq["cfg"]["model"], rr.get("violated") or rr.get("error")))
    v.extra["real_package_roundtrips"] = dict(checked=len(reqs), failed=len(badl))
    v.traces_validated += len(reqs) - len(badl)
    if badl:
        # a failure here is a genuine save/load disagreement on the real code: report it as a violation
        for metric, model, what in badl[:3]:
            path = v.write_replay(dict(property="C19", signature="C19:real:%s" % model, obligation=str(what),
                                       request=dict(kind="persist", cfg=dict(model=model, branch="fn", n=4, labels=[0, 1, 0, 1], metric=metric))))
            v.confirmed.append(("C19:real:%s:%s" % (model, metric), path, "save/load round trip differs on the real package: %s" % (what,)))
    return None


def signature(prop, cfg, viol):
    from .driver import strip_idx
    return "%s:%s:%s:%s" % (prop, cfg.get("model"), cfg.get("branch"), strip_idx(viol["name"]).split(".")[0])


def describe(v, tier):
    v.bounds = dict(symbolic="4 model kinds x {pre-computed matrix, on-the-fly manhattan}, 3 training samples (thorough: 4), symbolic weights / features, one symbolic query",
                    concrete="47 metrics x 4 model kinds on the real package (real pickle of real numba dispatchers)")
    v.assumptions = ["the real pickle module is executed, not modelled; symbolic scalars serialise their SMT term and are compared by z3 after loading",
                     "KNN-supervised with a pre-computed matrix: the matrix must be n_train x n_train (enforced by the library), so the query is a training row"]
    v.outside = ["the pickle byte stream itself, disk faults", "more than 4 training samples"]
    v.stubs = ["open -> in-memory byte stream (symx.vfs)", "numpy -> symx.symnp (arrays pickle as their element lists)"]
