"""C07 -- no call modifies caller data; results depend only on argument values.

Every write into a caller-owned buffer (directly or through a view) is logged by the numpy model with
its source site; each logged write must leave the stored value bit-for-bit unchanged.  Whether a write
`v <- v + c` can change a float64 is decided by a QF_FP query; every candidate is replayed on the real
package (bytes of the caller's arrays before vs after).
"""
from __future__ import annotations

import z3

from symx import core, symnp, symmath
from symx.core import to_real, rv, SymReal
from spec import metrics as SPEC
from . import common, models
from .metrics import sym_vec


def fp_write_changes(old, new, nonneg=False):
    """can the write old -> new change the stored float64?  returns (verdict, witness_float | None)
    verdict: 'no' | 'yes' | 'candidate' (pattern not bit-precisely encodable: replay decides)"""
    d = z3.simplify(new - old)
    if z3.is_rational_value(d):
        if d.numerator_as_long() == 0:
            return "no", None
        c = d.numerator_as_long() / d.denominator_as_long()
        x = z3.FP("x", z3.Float64())
        s = z3.Solver()
        s.set("timeout", 20000)
        s.add(z3.Not(z3.fpIsNaN(x)), z3.Not(z3.fpIsInf(x)))
        if nonneg:
            s.add(z3.fpGEQ(x, z3.FPVal(0.0, z3.Float64())))
        s.add(z3.Not(z3.fpEQ(z3.fpAdd(z3.RNE(), x, z3.FPVal(c, z3.Float64())), x)))
        r = s.check()
        if r == z3.sat:
            v = s.model()[x]
            return "yes", _fp_to_float(v)
        if r == z3.unsat:
            return "no", None
    return "candidate", None


def _fp_to_float(v):
    import struct
    bits = (int(v.sign()) << 63) | (v.exponent_as_long(True) << 52) | v.significand_as_long()
    return struct.unpack("<d", struct.pack("<Q", bits))[0]


def check_writes(eng, info_for, tag_prefix="caller", nonneg=False):
    """turn the write log into obligations; returns number of caller-buffer writes seen"""
    n = 0
    for (tag, k, old, new, site) in symnp.WRITE_LOG:
        if tag is None or not str(tag).startswith(tag_prefix):
            continue
        n += 1
        site_s = site.split("/opfython/")[-1]
        o, w = to_real(old), to_real(new)
        if o.eq(w):
            continue
        verdict, wit = fp_write_changes(o, w, nonneg)
        if verdict == "no":
            eng.stats["obligations"] += 1
            eng.stats["discharged"] += 1
            continue
        eng.check("write-leaves-caller-data-unchanged@%s" % site_s, False, info_for(tag, k, wit))
    return n


# ---------------------------------------------------------------------------
# metrics

def make_metric_harness(cfg, tw):
    name, n = cfg["metric"], cfg["n"]
    dist = tw.mod("opfython.math.distance")
    domain = SPEC.DOMAIN[name]

    def harness():
        eng = core.engine()
        symmath.LEVEL = "none"
        del symnp.WRITE_LOG[:]
        x = sym_vec(eng, n, "x", domain)
        y = sym_vec(eng, n, "y", domain)
        f = dist.DISTANCES[name]
        ax = symnp.SArr.from_list(list(x), dtype="f", tag="caller:x")
        ay = symnp.SArr.from_list(list(y), dtype="f", tag="caller:y")
        v1 = f(ax, ay)
        # same argument *values* again, after other evaluations happened in between
        f(symnp.SArr.from_list(list(y), dtype="f"), symnp.SArr.from_list(list(x), dtype="f"))
        v2 = f(symnp.SArr.from_list(list(x), dtype="f"), symnp.SArr.from_list(list(y), dtype="f"))
        return dict(x=x, y=y, v1=v1, v2=v2, ax=ax, ay=ay)
    return harness


def metric_post(eng, cfg, out):
    n = cfg["n"]

    def info_for(tag, k, wit):
        def info(m):
            ev = lambda v: common.fraction_to_float(eng.eval_model(m, v))
            x = [ev(v) for v in out["x"]]
            y = [ev(v) for v in out["y"]]
            if wit is not None:
                (x if tag.endswith("x") else y)[k] = wit
            return dict(kind="purity_metric", cfg=cfg, x=x, y=y)
        return info
    check_writes(eng, info_for, nonneg=SPEC.DOMAIN[cfg["metric"]] != "R")
    eng.check("value-depends-only-on-argument-values", to_real(out["v1"]) == to_real(out["v2"]),
              lambda m: dict(kind="purity_metric", cfg=cfg,
                             x=[common.fraction_to_float(eng.eval_model(m, v)) for v in out["x"]],
                             y=[common.fraction_to_float(eng.eval_model(m, v)) for v in out["y"]]))


# ---------------------------------------------------------------------------
# models

def make_model_harness(cfg, tw):
    model, metric, n, nq = cfg["model"], cfg["metric"], cfg["n"], cfg.get("nq", 1)
    labels = cfg["labels"]
    sup = tw.mod("opfython.models.supervised")
    semi = tw.mod("opfython.models.semi_supervised")
    knn = tw.mod("opfython.models.knn_supervised")
    uns = tw.mod("opfython.models.unsupervised")
    domain = SPEC.DOMAIN[metric]

    def harness():
        eng = core.engine()
        symmath.LEVEL = "full"
        del symnp.WRITE_LOG[:]
        feats = sym_vec(eng, n + 2 * nq, "f", domain)
        if cfg.get("zeros"):
            eng.assume(feats[0].e == 0)

        def data(tagged):
            X = symnp.SArr.from_list([[feats[i]] for i in range(n)], dtype="f", tag="caller:X" if tagged else None)
            Y = symnp.SArr.from_list(list(labels), dtype="i", tag="caller:Y" if tagged else None)
            Q = symnp.SArr.from_list([[feats[n + i]] for i in range(nq)], dtype="f", tag="caller:Q" if tagged else None)
            return X, Y, Q

        def second_batch():
            return symnp.SArr.from_list([[feats[n + nq + i]] for i in range(nq)], dtype="f")

        def run(tagged):
            X, Y, Q = data(tagged)
            if model == "sup":
                o = sup.SupervisedOPF(distance=metric)
                o.fit(X, Y)
                p = o.predict(Q)
            elif model == "semi":
                o = semi.SemiSupervisedOPF(distance=metric)
                o.fit(X, Y, Q)
                p = o.predict(Q)
            elif model == "knn":
                o = knn.KNNSupervisedOPF(max_k=1, distance=metric)
                o.fit(X, Y, X, Y)
                p = o.predict(Q)
            else:
                o = uns.UnsupervisedOPF(min_k=1, max_k=1, distance=metric)
                o.fit(X, Y)
                p = o.predict(Q)
            return o, p
        o1, p1 = run(True)
        # history: the model that already predicted one batch predicts a second, different one right away (nothing
        # else is allocated in between); later a fresh model predicts that second batch first
        q2_used = o1.predict(second_batch()) if model != "semi" else None
        o2, p2 = run(False)
        out = dict(feats=feats, o1=o1, p1=p1, o2=o2, p2=p2)
        if model != "semi":
            out["q2_used"] = q2_used
            X, Y, Q = data(False)
            if model == "sup":
                o3 = sup.SupervisedOPF(distance=metric)
                o3.fit(X, Y)
            elif model == "knn":
                o3 = knn.KNNSupervisedOPF(max_k=1, distance=metric)
                o3.fit(X, Y, X, Y)
            else:
                o3 = uns.UnsupervisedOPF(min_k=1, max_k=1, distance=metric)
                o3.fit(X, Y)
            out["q2_fresh"] = o3.predict(second_batch())
        return out
    return harness


def model_post(eng, cfg, out):
    def base_info(m):
        ev = lambda v: common.fraction_to_float(eng.eval_model(m, v))
        return dict(kind="purity_model", cfg=cfg, feats=[ev(v) for v in out["feats"]])

    def info_for(tag, k, wit):
        def info(m):
            p = base_info(m)
            if wit is not None and tag in ("caller:X", "caller:Q"):
                idx = k if tag == "caller:X" else cfg["n"] + k
                p["feats"][idx] = wit
            return p
        return info
    check_writes(eng, info_for, nonneg=SPEC.DOMAIN[cfg["metric"]] != "R")
    # a second fresh model on equal data is identical
    g1, g2 = out["o1"].subgraph, out["o2"].subgraph
    same = [len(g1.nodes) == len(g2.nodes)]
    if same[0]:
        for a, b in zip(g1.nodes, g2.nodes):
            for attr in ("cost", "pred", "predicted_label", "status", "cluster_label", "root"):
                same.append(core.sym_eq(getattr(a, attr), getattr(b, attr)))
        same.append(list(g1.idx_nodes) == list(g2.idx_nodes))
    flat = lambda p: list(p[0]) + list(p[1]) if isinstance(p, tuple) else list(p)
    for a, b in zip(flat(out["p1"]), flat(out["p2"])):
        same.append(core.sym_eq(a, b))
    if "q2_used" in out:
        for a, b in zip(flat(out["q2_used"]), flat(out["q2_fresh"])):
            same_h = core.sym_eq(a, b)
            eng.check("prediction-independent-of-earlier-predict-calls",
                      core.to_bool(same_h) if not isinstance(same_h, bool) else z3.BoolVal(same_h), base_info)
    eng.check("fitting-twice-on-equal-data-is-identical",
              z3.And([core.to_bool(s) if not isinstance(s, bool) else z3.BoolVal(s) for s in same]), base_info)


def run_config(cfg):
    common.bootstrap()
    tw = common.get_twin()
    if cfg["kind"] == "metric":
        harness = make_metric_harness(cfg, tw)
        post = metric_post
    else:
        harness = make_model_harness(cfg, tw)
        post = model_post
    def witness(eng, m, out):
        if cfg["kind"] != "model" or cfg["model"] not in ("sup", "semi"):
            return None      # k-NN models branch on values of the uninterpreted exp: a path model need not be realisable
        ev = lambda v: common.fraction_to_float(eng.eval_model(m, v))
        p = dict(kind="purity_model", cfg=cfg, feats=[ev(v) for v in out["feats"]])
        fl = lambda q: [list(map(ev, q[0])), list(map(ev, q[1]))] if isinstance(q, tuple) else [ev(x) for x in q]
        p["expected"] = dict(preds=fl(out["p1"]))
        return p
    return common.explore(cfg, harness, twin=tw, on_leaf=lambda e, o: post(e, cfg, o), witness_fn=witness,
                          witness_stride=cfg.get("wstride", 7), deadline_s=cfg.get("deadline_s", 600),
                          seed=cfg.get("seed", 0), solver_timeout_ms=cfg.get("timeout_ms", 20000),
                          logic="fresh" if cfg["kind"] == "metric" or cfg.get("fresh") else None)
