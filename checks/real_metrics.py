"""real-package handlers for the metric properties (C06, C07, C08, C11c)."""
import math
import os
import sys

import numpy as np

sys.path.insert(0, os.path.dirname(os.path.dirname(os.path.abspath(__file__))))
from spec import metrics as SPEC  # noqa: E402


def _close(a, b, rel=1e-9, ab=1e-12):
    if math.isnan(a) or math.isnan(b):
        return False
    return math.isclose(a, b, rel_tol=rel, abs_tol=ab)


def run_metric(req):
    from opfython.math import distance as d
    cfg = req["cfg"]
    name, kind = cfg["metric"], cfg["kind"]
    f = d.DISTANCES[name]
    x = np.array(req["x"], dtype=float)
    y = np.array(req.get("y", req["x"]), dtype=float)
    bad = []
    obs = {}
    raised = []

    def call(a, b):
        # "on its domain every metric returns a finite number": an arithmetic exception on a domain input is a
        # failure of that clause, not a failed replay
        try:
            return float(f(np.array(a, dtype=float).copy(), np.array(b, dtype=float).copy()))
        except (ZeroDivisionError, FloatingPointError, OverflowError, ValueError) as ex:
            raised.append(type(ex).__name__)
            return float("nan")
    if kind == "equiv":
        v = call(x, y)
        try:
            cf = float(SPEC.evaluate(name, list(map(float, x)), list(map(float, y))))
        except (ValueError, ZeroDivisionError):
            cf = float("nan")
        obs.update(value=v, closed_form=cf)
        if not (math.isnan(v) and math.isnan(cf)) and not _close(v, cf):
            bad.append("value-equals-closed-form")
    elif kind == "sym":
        a, b = call(x, y), call(y, x)
        obs.update(xy=a, yx=b)
        if not _close(a, b):
            bad.append("symmetric")
    elif kind == "nonneg":
        a = call(x, y)
        obs.update(value=a)
        if not a >= -1e-9:
            bad.append("non-negative")
    elif kind == "zeroself":
        a = call(x, x)
        obs.update(value=a)
        if not abs(a) <= 1e-6:
            bad.append("zero-self-distance")
    elif kind == "triangle":
        z = np.array(req["z"], dtype=float)
        xy, yz, xz = call(x, y), call(y, z), call(x, z)
        obs.update(xy=xy, yz=yz, xz=xz)
        if not xz <= xy + yz + 1e-9 * max(1.0, abs(xy) + abs(yz)):
            bad.append("triangle-inequality")
    elif kind == "finite":
        a = call(x, y)
        obs.update(value=a)
        if not math.isfinite(a):
            bad.append("well-defined")
    if raised:
        obs["raised"] = raised
        if kind != "equiv" and "well-defined" not in bad:
            bad.append("well-defined")
    return dict(obs=obs, violated=bad)


def run_registry(req):
    from opfython.math import distance as d
    from opfython.core.opf import OPF
    import opfython.utils.exception as e
    s = req["s"]
    bad = []
    try:
        o = OPF(distance=s)
        accepted = True
        same = o.distance_fn is d.DISTANCES.get(s)
    except KeyError:
        accepted, same = True, False
    except e.Error:
        accepted, same = False, True
    if accepted != (s in d.DISTANCES) or (accepted and not same):
        bad.append("registry-and-whitelist-agree")
    return dict(obs=dict(accepted=accepted, in_registry=s in d.DISTANCES), violated=bad)


HANDLERS = {"metric": run_metric, "registry": run_registry}


def run_purity_metric(req):
    from opfython.math import distance as d
    cfg = req["cfg"]
    f = d.DISTANCES[cfg["metric"]]
    x = np.array(req["x"], dtype=float)
    y = np.array(req["y"], dtype=float)
    bx, by = x.tobytes(), y.tobytes()
    bad = []
    v1 = float(f(x, y))
    if x.tobytes() != bx or y.tobytes() != by:
        bad.append("write-leaves-caller-data-unchanged")
    f(np.array(req["y"], dtype=float), np.array(req["x"], dtype=float))
    v2 = float(f(np.array(req["x"], dtype=float), np.array(req["y"], dtype=float)))
    # different call histories in between: other metrics on vectors of the same length with large values, so
    # that any scratch memory the metric re-uses without initialising it holds something else
    n = len(x)
    vals = [v1, v2]
    rng = np.random.RandomState(7)
    for rnd in range(6):
        for name in ("euclidean", "manhattan", "canberra", "chi_squared", "squared_chord", "hassanat", "lorentzian"):
            a = rng.uniform(1e3, 1e6, n) * (rnd + 1)
            b = rng.uniform(1e3, 1e6, n) * (rnd + 2)
            d.DISTANCES[name](a, b)
        keep = [np.full(n, 1e9 * (rnd + 1)) for _ in range(8)]
        del keep
        vals.append(float(f(np.array(req["x"], dtype=float), np.array(req["y"], dtype=float))))
    v2 = vals[-1]
    if any(not (v == v1 or (math.isnan(v) and math.isnan(v1))) for v in vals):
        bad.append("value-depends-only-on-argument-values")
    return dict(obs=dict(v1=v1, v2=v2, x_after=[float(t) for t in x], y_after=[float(t) for t in y]), violated=bad)


def run_purity_model(req):
    from opfython.models.supervised import SupervisedOPF
    from opfython.models.semi_supervised import SemiSupervisedOPF
    from opfython.models.knn_supervised import KNNSupervisedOPF
    from opfython.models.unsupervised import UnsupervisedOPF
    cfg = req["cfg"]
    model, metric, n, nq = cfg["model"], cfg["metric"], cfg["n"], cfg.get("nq", 1)
    feats = req["feats"]

    def run():
        X = np.array([[feats[i]] for i in range(n)], dtype=float)
        Y = np.array(cfg["labels"], dtype=int)
        Q = np.array([[feats[n + i]] for i in range(nq)], dtype=float)
        before = (X.tobytes(), Y.tobytes(), Q.tobytes())
        if model == "sup":
            o = SupervisedOPF(distance=metric)
            o.fit(X, Y)
            p = o.predict(Q)
        elif model == "semi":
            o = SemiSupervisedOPF(distance=metric)
            o.fit(X, Y, Q)
            p = o.predict(Q)
        elif model == "knn":
            o = KNNSupervisedOPF(max_k=1, distance=metric)
            o.fit(X, Y, X, Y)
            p = o.predict(Q)
        else:
            o = UnsupervisedOPF(min_k=1, max_k=1, distance=metric)
            o.fit(X, Y)
            p = o.predict(Q)
        after = (X.tobytes(), Y.tobytes(), Q.tobytes())
        g = o.subgraph
        state = [[float(nd.cost), int(nd.pred), int(nd.predicted_label), int(nd.status)] for nd in g.nodes]
        preds = [list(map(int, t)) for t in p] if isinstance(p, tuple) else [int(t) for t in p]
        return before == after, state, preds
    ok1, s1, p1 = run()
    ok2, s2, p2 = run()
    bad = []
    if model != "semi" and len(feats) >= n + 2 * nq:
        def fitted():
            X = np.array([[feats[i]] for i in range(n)], dtype=float)
            Y = np.array(cfg["labels"], dtype=int)
            if model == "sup":
                o = SupervisedOPF(distance=metric)
                o.fit(X, Y)
            elif model == "knn":
                o = KNNSupervisedOPF(max_k=1, distance=metric)
                o.fit(X, Y, X, Y)
            else:
                o = UnsupervisedOPF(min_k=1, max_k=1, distance=metric)
                o.fit(X, Y)
            return o
        flat = lambda p: [list(map(int, t)) for t in p] if isinstance(p, tuple) else [int(t) for t in p]
        Q1 = lambda: np.array([[feats[n + i]] for i in range(nq)], dtype=float)
        Q2 = lambda: np.array([[feats[n + nq + i]] for i in range(nq)], dtype=float)
        used = fitted()
        used.predict(Q1())
        a = flat(used.predict(Q2()))
        b = flat(fitted().predict(Q2()))
        if a != b:
            bad.append("prediction-independent-of-earlier-predict-calls")
    if not ok1:
        bad.append("write-leaves-caller-data-unchanged")
    if s1 != s2 or p1 != p2:
        bad.append("fitting-twice-on-equal-data-is-identical")
    return dict(obs=dict(state=s1, preds=p1), violated=bad)


HANDLERS.update({"purity_metric": run_purity_metric, "purity_model": run_purity_model})


def run_metric_family(req):
    from opfython.math import distance as d
    f = d.DISTANCES[req["cfg"]["metric"]]
    x, y, u, v = (np.array(req[k], dtype=float) for k in ("x", "y", "u", "v"))
    S1, S2 = float(np.sum((x - y) ** 2)), float(np.sum((u - v) ** 2))
    a, b = float(f(x, y)), float(f(u, v))
    bad = []
    if (S1 < S2) != (a < b) and abs(S1 - S2) > 1e-9 * max(1.0, S1, S2):
        bad.append("strictly-increasing-in-the-squared-euclidean-distance")
    return dict(obs=dict(S1=S1, S2=S2, a=a, b=b), violated=bad)


HANDLERS["metric_family"] = run_metric_family
