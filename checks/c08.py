"""C08 -- metric axioms: finite, symmetric, non-negative, zero self-distance, triangle inequality."""
from spec import metrics as SPEC

RUN = ("checks.c08", "run")
UNREPRODUCED_IS_INCONCLUSIVE = True
MAX_REPLAYS = 40
KIND = {"S": "sym", "N": "nonneg", "Z": "zeroself", "F": "finite", "T": "triangle"}


def run(cfg):
    from . import metrics
    if cfg.get("kind") == "fp":
        return metrics.run_fp(cfg)
    return metrics.run_config(cfg)


def configs(tier, seed):
    cfgs = []
    ns = [1, 2, 3] if tier == "quick" else [1, 2, 3, 4]
    maxn = 4 if tier == "quick" else 8
    tmo = 20000 if tier == "quick" else 240000
    for name in sorted(SPEC.CLOSED):
        kernel = name in SPEC.SUM_KERNEL
        if kernel:
            # value on n-vectors = sum of the kernel over coordinates (checked against the code for every n),
            # so the axioms are decided on the kernel (n = 1) and lifted (lemmas discharged in the same run)
            for n in range(2, maxn + 1):
                cfgs.append(dict(metric=name, n=n, kind="decomp", weight=n * n, timeout_ms=tmo))
        for ax in SPEC.AXIOMS[name]:
            dom = None
            if ax.endswith("@D"):
                dom = "D"
                ax = ax[:-2]
            kind = KIND[ax]
            if kind == "triangle":
                tn = [1] if kernel else ([1, 2] if tier == "quick" else [1, 2, 3])
                for n in tn:
                    cfgs.append(dict(metric=name, n=n, kind=kind, domain=dom, weight=50 * n, timeout_ms=tmo))
                continue
            if kernel and dom is None and kind in ("sym", "nonneg", "zeroself"):
                cfgs.append(dict(metric=name, n=1, kind=kind, share=maxn, weight=1, timeout_ms=tmo))
                if kind != "sym":
                    # and directly, with the whole-vector tolerance, where the solver still answers
                    cfgs.append(dict(metric=name, n=2, kind=kind, weight=4, timeout_ms=tmo))
                continue
            for n in ns:
                cfgs.append(dict(metric=name, n=n, kind=kind, domain=dom, weight=n * n, timeout_ms=tmo))
        # floating-point robustness of every radicand / log argument / denominator (rounding model + replay)
        cfgs.append(dict(metric=name, n=2, kind="fp", weight=30, timeout_ms=tmo))
        if tier == "thorough":
            cfgs.append(dict(metric=name, n=3, kind="fp", weight=60, timeout_ms=tmo))
    return cfgs


def signature(prop, cfg, viol):
    from .driver import strip_idx
    return "%s:%s:%s:%s" % (prop, cfg.get("metric"), cfg.get("kind"), strip_idx(viol["name"]).split(":")[0])


def describe(v, tier):
    v.bounds = dict(axiom_table="spec/metrics.py AXIOMS (fixed): which metric claims which of F,S,N,Z,T and on which domain",
                    vector_length="1..3 (quick) / 1..4 (thorough); triangle inequality n<=2 (quick) / n<=3 (thorough)",
                    floating_point="standard rounding model (every operation result times (1+d), |d| <= 2^-53) for n=2 (quick) / n<=3 (thorough); candidates replayed on the real njit function in float64")
    v.assumptions = ["real arithmetic for S, N, Z, T; 'zero up to rounding' = exactly zero over the reals",
                     "domains: R all reals, P componentwise >= 0 (zeros allowed, EPSILON shift applied by the library), D = P with sum 1; |x_i| <= 1e6",
                     "log: uninterpreted with sign, monotonicity and tangent-line axioms on occurring arguments; exp: positivity and monotonicity",
                     "an `unknown` solver answer leaves that (metric, axiom, n) undecided; it is listed under inconclusive_sites and never counted as success"]
    v.outside = ["vector lengths beyond the bound", "magnitude of rounding error (only NaN/inf production is checked bit-faithfully, by replay)"]
    v.stubs = ["numpy -> symx.symnp", "numba.njit -> identity", "math -> symx.symmath"]


def conformance(v, tier, seed):
    """the metric bodies whose axioms are decided here, executed concretely through the twin inside model runs on the
    repository's data, against the real njit code"""
    from . import conform
    names = ["canberra", "soergel", "hellinger", "matusita", "lorentzian", "jensen_shannon", "kullback_leibler",
             "bhattacharyya", "chord", "cosine", "hassanat", "gower"]
    return conform.gate(v, [("sup", n) for n in names])
