"""C18 -- splitting, merging, loading, parsing and converting preserve every sample."""
from __future__ import annotations

import itertools

import z3

from symx import core, symnp, vfs
from symx.core import to_real, to_int, rv, SymReal, SymInt
from . import common


def _row_eq(a_feats, a_lab, b_feats, b_lab):
    return z3.And([to_real(x) == to_real(y) for x, y in zip(a_feats, b_feats)] + [to_int(a_lab) == to_int(b_lab)])


def bijection_oracle(in_rows, out_rows, idx_out=None):
    """exists a bijection sigma: out position -> input row with equal features and label (and index)"""
    n = len(in_rows)
    if len(out_rows) != n:
        return z3.BoolVal(False)
    alts = []
    for sigma in itertools.permutations(range(n)):
        cl = []
        for k in range(n):
            cl.append(_row_eq(out_rows[k][0], out_rows[k][1], in_rows[sigma[k]][0], in_rows[sigma[k]][1]))
            if idx_out is not None:
                cl.append(to_int(idx_out[k]) == sigma[k])
        alts.append(z3.And(cl))
    return z3.Or(alts)


def make_split_harness(cfg, tw):
    n, f, with_index = cfg["n"], cfg["f"], cfg.get("with_index", False)
    sp = tw.mod("opfython.stream.splitter")

    def harness():
        eng = core.engine()
        symnp.random.reset()
        feats = [[eng.real("x_%d_%d" % (i, j)) for j in range(f)] for i in range(n)]
        labs = [eng.int("y_%d" % i, 0, 3) for i in range(n)]
        p = eng.real("p")
        eng.assume(z3.And(p.e >= 0, p.e <= 1))
        seed = eng.int("seed", 0, 1000)
        perms = list(itertools.permutations(range(n)))
        table = {}

        def provider(kind, args):
            if kind != "permutation":
                raise core.Unsupported("unexpected RNG call %s" % kind)
            m, state = args
            key = repr(state)
            if key not in table:
                # an arbitrary permutation, but a function of the RNG state (contract of a seeded generator)
                table[key] = list(perms[eng.choose(len(perms), "perm%d" % len(table))]) if m == n else list(range(m))
            return table[key]
        symnp.random.provider = provider
        X = symnp.SArr.from_list(feats, dtype="f", tag="caller:X")
        Y = symnp.SArr.from_list(labs, dtype="i", tag="caller:Y")
        fn = sp.split_with_index if with_index else sp.split
        r1 = fn(X, Y, p, seed)
        # unrelated RNG traffic in between, then the same seed again
        symnp.random.seed(seed + 1)
        symnp.random.permutation(n)
        r2 = fn(X, Y, p, seed)
        merged = sp.merge(r1[0], r1[1], r1[2], r1[3])
        return dict(feats=feats, labs=labs, p=p, seed=seed, r1=r1, r2=r2, merged=merged, table=table)
    return harness


def rows_of(Xa, Ya):
    return [(Xa[k].flat() if isinstance(Xa[k], symnp.SArr) else [Xa[k]], Ya._get((k,))) for k in range(len(Ya))]


def split_post(eng, cfg, out, info):
    n = cfg["n"]
    with_index = cfg.get("with_index", False)
    r1, r2 = out["r1"], out["r2"]
    X1, X2, Y1, Y2 = r1[0], r1[1], r1[2], r1[3]
    ok = all(isinstance(a, symnp.SArr) for a in (X1, X2, Y1, Y2)) and len(X1) == len(Y1) and len(X2) == len(Y2)
    eng.check("outputs-are-consistent-arrays", ok, info)
    if not ok:
        return
    in_rows = list(zip(out["feats"], out["labs"]))
    out_rows = rows_of(X1, Y1) + rows_of(X2, Y2)
    idx_out = None
    if with_index:
        idx_out = list(r1[4].flat()) + list(r1[5].flat())
    eng.check("every-sample-in-exactly-one-set-with-its-label", bijection_oracle(in_rows, out_rows, idx_out), info)
    h = len(Y1)
    p = to_real(out["p"])
    eng.check("first-set-has-floor(n*p)-samples", z3.And(h <= n * p, n * p < h + 1), info)
    # deterministic function of the seed
    same = []
    for a, b in zip(r1, r2):
        same.append(a.shape == b.shape)
        if a.shape == b.shape:
            same.extend(core.sym_eq(x, y) for x, y in zip(a.flat(), b.flat()))
    eng.check("same-seed-same-split", z3.And([core.to_bool(s) if not isinstance(s, bool) else z3.BoolVal(s) for s in same]), info)
    Xm, Ym = out["merged"]
    okm = isinstance(Xm, symnp.SArr) and isinstance(Ym, symnp.SArr) and len(Xm) == n and len(Ym) == n
    eng.check("merge-shape", okm, info)
    if okm:
        eng.check("merge-gives-back-the-samples", bijection_oracle(in_rows, rows_of(Xm, Ym)), info)
    # caller's arrays untouched
    writes = [w for w in symnp.WRITE_LOG if w[0] and str(w[0]).startswith("caller")]
    eng.check("split-does-not-write-caller-arrays", len(writes) == 0, info)


def split_payload(eng, m, cfg, out):
    ev = lambda v: common.fraction_to_float(eng.eval_model(m, v))
    perms = {}
    for k, v in out["table"].items():
        perms[k] = list(v)
    return dict(kind="stream_split", cfg=cfg, X=[[ev(v) for v in r] for r in out["feats"]], Y=[ev(v) for v in out["labs"]],
                p=ev(out["p"]), seed=ev(out["seed"]), perms=list(perms.values()))


# ---------------------------------------------------------------------------

def make_convert_harness(cfg, tw):
    n, f, K = cfg["n"], cfg["f"], cfg.get("K", 2)
    conv = tw.mod("opfython.utils.converter")
    loader = tw.mod("opfython.stream.loader")
    parser = tw.mod("opfython.stream.parser")
    exc = tw.mod("opfython.utils.exception")
    Subgraph = tw.mod("opfython.core.subgraph").Subgraph

    def harness():
        eng = core.engine()
        vfs.reset()
        ids = [eng.int("id%d" % i, 0, 2 ** 31 - 1) for i in range(n)]      # any non-negative 32-bit identifier
        labs = [eng.int("lab%d" % i, 1, K) for i in range(n)]            # stored labels are 1-based
        feats = [[eng.real("v_%d_%d" % (i, j)) for j in range(f)] for i in range(n)]
        fields = [("i", n), ("i", K), ("i", f)]
        for i in range(n):
            fields += [("i", ids[i]), ("i", labs[i])] + [("f", feats[i][j]) for j in range(f)]
        vfs.write_binary("data.dat", fields)
        conv.opf2txt("data.dat")
        conv.opf2csv("data.dat", "other.csv")
        conv.opf2json("data.dat")
        loaded = dict(txt=loader.load_txt("data.txt"), csv=loader.load_csv("other.csv"), json=loader.load_json("data.json"))
        parsed = {}
        for k, arr in loaded.items():
            try:
                parsed[k] = ("ok",) + tuple(parser.parse_loader(arr))
            except exc.ValueError:
                parsed[k] = ("rejected",)
        graphs = {}
        for k, path in (("txt", "data.txt"), ("csv", "other.csv"), ("json", "data.json")):
            try:
                graphs[k] = Subgraph(from_file=path)
            except exc.ValueError:
                graphs[k] = None
        out = dict(ids=ids, labs=labs, feats=feats, loaded=loaded, parsed=parsed, graphs=graphs)
        # history: a second data set exported under the SAME file names must be what is loaded afterwards
        ids2 = [eng.int("jd%d" % i, 0, 2 ** 31 - 1) for i in range(n)]
        feats2 = [[eng.real("u_%d_%d" % (i, j)) for j in range(f)] for i in range(n)]
        fields = [("i", n), ("i", K), ("i", f)]
        for i in range(n):
            fields += [("i", ids2[i]), ("i", labs[i])] + [("f", feats2[i][j]) for j in range(f)]
        vfs.write_binary("data.dat", fields)
        conv.opf2txt("data.dat")
        conv.opf2csv("data.dat", "other.csv")
        conv.opf2json("data.dat")
        out["second"] = dict(ids=ids2, feats=feats2,
                             loaded=dict(txt=loader.load_txt("data.txt"), csv=loader.load_csv("other.csv"),
                                         json=loader.load_json("data.json")))
        return out
    return harness


def convert_post(eng, cfg, out, info):
    n, f = cfg["n"], cfg["f"]
    ids, labs, feats = out["ids"], out["labs"], out["feats"]
    lab0 = [to_int(l) - 1 for l in labs]
    mx = lab0[0]
    for l in lab0[1:]:
        mx = z3.If(l >= mx, l, mx)
    # labels are sequential iff every value 0..max occurs
    K = cfg.get("K", 2)
    seq = z3.And([z3.Implies(v <= mx, z3.Or([l == v for l in lab0])) for v in range(K)])
    for k in ("txt", "csv", "json"):
        arr = out["loaded"][k]
        ok = isinstance(arr, symnp.SArr) and arr.shape == (n, f + 2)
        eng.check("%s-loaded-shape" % k, ok, info)
        if not ok:
            continue
        for i in range(n):
            eng.check("%s-identifier-preserved[%d]" % (k, i), to_real(arr._get((i, 0))) == z3.ToReal(to_int(ids[i])), info)
            eng.check("%s-label-shifted-to-zero-base[%d]" % (k, i), to_real(arr._get((i, 1))) == z3.ToReal(lab0[i]), info)
            for j in range(f):
                eng.check("%s-feature-is-stored-value[%d,%d]" % (k, i, j), to_real(arr._get((i, j + 2))) == to_real(feats[i][j]), info)
        pr = out["parsed"][k]
        if pr[0] == "rejected":
            eng.check("%s-parse-rejects-only-non-sequential-labels" % k, z3.Not(seq), info)
            eng.check("%s-from-file-rejects-too" % k, out["graphs"][k] is None, info)
        else:
            eng.check("%s-parse-accepts-only-sequential-labels" % k, seq, info)
            X, Y = pr[1], pr[2]
            okp = isinstance(X, symnp.SArr) and isinstance(Y, symnp.SArr) and X.shape == (n, f) and Y.shape == (n,)
            eng.check("%s-parsed-shape" % k, okp, info)
            if okp:
                for i in range(n):
                    eng.check("%s-parsed-label[%d]" % (k, i), to_int(Y._get((i,))) == lab0[i], info)
                    for j in range(f):
                        eng.check("%s-parsed-feature[%d,%d]" % (k, i, j), to_real(X._get((i, j))) == to_real(feats[i][j]), info)
            g = out["graphs"][k]
            okg = g is not None and g.n_nodes == n and g.n_features == f
            eng.check("%s-from-file-builds-the-graph" % k, okg, info)
            if okg:
                for i in range(n):
                    eng.check("%s-node-label[%d]" % (k, i), to_int(g.nodes[i].label) == lab0[i], info)
                    for j in range(f):
                        eng.check("%s-node-feature[%d,%d]" % (k, i, j), to_real(g.nodes[i].features._get((j,))) == to_real(feats[i][j]), info)


def convert_post_second(eng, cfg, out, info):
    n, f = cfg["n"], cfg["f"]
    sec = out.get("second")
    if not sec:
        return
    for k in ("txt", "csv", "json"):
        arr = sec["loaded"][k]
        ok = isinstance(arr, symnp.SArr) and arr.shape == (n, f + 2)
        eng.check("%s-reloaded-shape" % k, ok, info)
        if not ok:
            continue
        for i in range(n):
            eng.check("%s-reload-sees-the-new-file-identifier[%d]" % (k, i),
                      to_real(arr._get((i, 0))) == z3.ToReal(to_int(sec["ids"][i])), info)
            for j in range(f):
                eng.check("%s-reload-sees-the-new-file-feature[%d,%d]" % (k, i, j),
                          to_real(arr._get((i, j + 2))) == to_real(sec["feats"][i][j]), info)


def convert_payload(eng, m, cfg, out):
    ev = lambda v: common.fraction_to_float(eng.eval_model(m, v))
    p = dict(kind="stream_convert", cfg=cfg, ids=[ev(v) for v in out["ids"]], labs=[ev(v) for v in out["labs"]],
             feats=[[ev(v) for v in r] for r in out["feats"]])
    if out.get("second"):
        p["ids2"] = [ev(v) for v in out["second"]["ids"]]
        p["feats2"] = [[ev(v) for v in r] for r in out["second"]["feats"]]
    return p


def run_config(cfg):
    common.bootstrap()
    tw = common.get_twin()
    if cfg["kind"] == "split":
        harness, post, pay = make_split_harness(cfg, tw), split_post, split_payload
    else:
        def post(eng, cfg, out, info):
            convert_post(eng, cfg, out, info)
            convert_post_second(eng, cfg, out, info)
        harness, pay = make_convert_harness(cfg, tw), convert_payload

    state = {}

    def h2():
        del symnp.WRITE_LOG[:]
        state.clear()
        try:
            return harness()
        except core.Unsupported:
            raise
        except Exception as ex:
            # the library failing on a valid data set is a violation candidate (replayed on the real code)
            return dict(raised="%s: %s" % (type(ex).__name__, str(ex)[:200]))

    def on_leaf(eng, out):
        if "raised" in out:
            eng.check("pipeline-does-not-raise", False,
                      lambda m: dict(kind="stream_" + ("split" if cfg["kind"] == "split" else "convert"), cfg=cfg,
                                     raised=out["raised"], generic=True))
            return
        post(eng, cfg, out, lambda m: pay(eng, m, cfg, out))
    def witness(eng, m, out):
        if cfg["kind"] != "convert" or "raised" in out:
            return None
        p = convert_payload(eng, m, cfg, out)
        # float32 storage: only witnesses whose feature values survive float32 are comparable bit for bit
        import struct as _st
        for row in p["feats"]:
            for v in row:
                if _st.unpack("<f", _st.pack("<f", v))[0] != v:
                    return None
        arr = out["loaded"]["txt"]
        ev = lambda x: common.fraction_to_float(eng.eval_model(m, x))
        p["expected"] = dict(txt=[[ev(x) for x in r] for r in arr.tolist()],
                             accepted=[k for k in ("txt", "csv", "json") if out["parsed"][k][0] == "ok"])
        return p
    return common.explore(cfg, h2, twin=tw, on_leaf=on_leaf, witness_fn=witness, witness_stride=cfg.get("wstride", 3),
                          deadline_s=cfg.get("deadline_s", 600),
                          seed=cfg.get("seed", 0), solver_timeout_ms=cfg.get("timeout_ms", 30000))
