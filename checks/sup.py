"""Supervised / semi-supervised model harnesses: C01, C02, C03, C04 (supervised part), C11, C15.

One exploration = the real fit (and predict) of the twin on a symbolic weight matrix W and
symbolic labels constrained to one equality pattern (set partition); obligations are asserted
at every leaf against declarative oracles.
"""
from __future__ import annotations

import itertools
from fractions import Fraction

import z3

from symx import core, symnp
from symx.core import to_real, to_int, rv
from . import common, models
from .models import PROTOTYPE, NIL, zmax, zmax_list, zmin_list


def partitions(n, kmin=2, kmax=None):
    """restricted growth strings of set partitions of n elements into kmin..kmax blocks"""
    kmax = kmax or n
    out = []

    def rec(prefix, m):
        if len(prefix) == n:
            if kmin <= m <= kmax:
                out.append(tuple(prefix))
            return
        for v in range(min(m + 1, kmax)):
            rec(prefix + [v], max(m, v + 1))
    rec([0], 1)
    return out


def assume_partition(eng, labels, part):
    cons = []
    for i in range(len(part)):
        for j in range(i + 1, len(part)):
            if part[i] == part[j]:
                cons.append(labels[i].e == labels[j].e)
            else:
                cons.append(labels[i].e != labels[j].e)
    if cons:
        eng.assume(z3.And(cons))


# ---------------------------------------------------------------------------

def make_harness(cfg, tw):
    n = cfg["n"]                    # labeled training samples
    nu = cfg.get("nu", 0)           # unlabeled (semi-supervised)
    nq = cfg.get("nq", 0)           # queries
    branch = cfg["branch"]
    part = tuple(cfg["part"])
    K = cfg.get("K", max(part) + 1)
    semi = cfg.get("semi", False)
    distinct = cfg.get("distinct", False)
    zero_diag = cfg.get("zero_diag", False)
    only_protos = cfg.get("only_protos", False)
    resub = cfg.get("resub", False)   # queries are copies of training samples (C04)
    N = n + nu + nq
    hist = cfg.get("hist", 0)  # the object was used before: fitted on `hist` other samples (rows N.. of the table) and asked for a prediction
    ids = cfg.get("ids")      # position i stands for row ids[i] of the table (Node.idx != position); unlabeled positions keep their own row
    sup = tw.mod("opfython.models.supervised")
    semi_mod = tw.mod("opfython.models.semi_supervised")
    core_mod = tw.mod("opfython.core")

    def harness():
        eng = core.engine()
        Wfull = models.sym_matrix(eng, (max(ids) + 1) if ids else (N + hist + 1 if hist else N), symmetric=True, diag="zero" if zero_diag else "free",
                                  distinct=distinct, positive=cfg.get("positive", False))
        # W is always indexed by position; the model reads the table through the sample identifiers
        W = [[Wfull[ids[i]][ids[j]] for j in range(N)] for i in range(N)] if ids else Wfull
        if hist:
            W = [r[:N] for r in Wfull[:N]]
        labels = models.sym_labels(eng, n, K, two_classes=False)
        assume_partition(eng, labels, part)
        cls = semi_mod.SemiSupervisedOPF if semi else sup.SupervisedOPF
        opf = models.build_opf(cls, branch, Wfull)
        X, Y, I = models.data_for(branch, n, labels, idx=ids[:n] if ids else None)
        out = dict(W=W, Wfull=Wfull, labels=labels, opf=opf)
        if only_protos:
            opf.subgraph = core_mod.Subgraph(X, Y, I=I)
            opf._find_prototypes()
            return out
        if hist:
            # earlier life of the same object: a fit on other (symbolic) data and a prediction with it
            X0, Y0, I0 = models.data_for(branch, hist, [i % 2 for i in range(hist)], offset=N)
            if semi:
                Xu0, _, _ = models.data_for(branch, 1, None, offset=N + hist)
                opf.fit(X0, Y0, Xu0, I0)
            else:
                opf.fit(X0, Y0, I0)
            Xq0, _, Iq0 = models.data_for(branch, 1, None, offset=n + nu)
            out["hist_preds"] = opf.predict(Xq0, Iq0)
        if semi:
            Xu, _, _ = models.data_for(branch, nu, None, offset=n)
            opf.fit(X, Y, Xu, I)
        else:
            opf.fit(X, Y, I)
        if nq or resub:
            # snapshot of the forest that predict is going to read
            g = opf.subgraph
            out["snap"] = dict(cost=[nd.cost for nd in g.nodes], plabel=[nd.predicted_label for nd in g.nodes],
                               pred=[nd.pred for nd in g.nodes], order=list(g.idx_nodes))
            if resub:
                Xq, _, Iq = models.data_for(branch, n, None, offset=0, idx=ids[:n] if ids else None)
            else:
                Xq, _, Iq = models.data_for(branch, nq, None, offset=n + nu, idx=ids[n + nu:] if ids else None)
            out["preds"] = opf.predict(Xq, Iq)
        return out
    return harness


def observables(out):
    g = out["opf"].subgraph
    nodes = g.nodes
    return dict(cost=[nd.cost for nd in nodes], pred=[nd.pred for nd in nodes],
                plabel=[nd.predicted_label for nd in nodes], label=[nd.label for nd in nodes],
                status=[nd.status for nd in nodes], order=list(g.idx_nodes),
                relevant=[nd.relevant for nd in nodes], preds=out.get("preds"))


def payload(eng, m, cfg, out):
    """concrete input (for the real package) from a model of the path condition"""
    Wv = models.eval_matrix(eng, m, out.get("Wfull", out["W"]))
    Wf = models.floats_of(Wv)
    if Wf is None:
        return None
    ls = [eng.eval_model(m, l) for l in out["labels"]]
    return dict(kind="sup", cfg=cfg, W=Wf, labels=ls)


def expected(eng, m, out):
    ob = observables(out)
    ev = lambda x: common.fraction_to_float(eng.eval_model(m, x))
    return dict(cost=[ev(c) for c in ob["cost"]], pred=list(ob["pred"]), plabel=[ev(x) for x in ob["plabel"]],
                label=[ev(x) for x in ob["label"]],
                status=list(ob["status"]), order=list(ob["order"]),
                preds=[ev(x) for x in ob["preds"]] if ob["preds"] is not None else None)


# ---------------------------------------------------------------------------
# obligations

def _concrete(eng, name, ok, info):
    eng.check(name, bool(ok), info=info)


def oblig_c01(eng, cfg, out, info, semi=False):
    ob = observables(out)
    n_all = len(ob["cost"])
    W = out["W"]
    Wz = [[to_real(W[i][j]) for j in range(n_all)] for i in range(n_all)]
    cost = [to_real(c) for c in ob["cost"]]
    pred, status, order = ob["pred"], ob["status"], ob["order"]
    protos = [i for i in range(n_all) if status[i] == PROTOTYPE]
    _concrete(eng, "order-is-permutation", sorted(order) == list(range(n_all)), info)
    _concrete(eng, "has-prototype", len(protos) >= 1, info)
    chains = {}
    for i in range(n_all):
        ch = models.chain(pred, i, n_all)
        chains[i] = ch
        _concrete(eng, "chain-acyclic-ends-in-prototype[%d]" % i,
                  ch is not None and status[ch[-1]] == PROTOTYPE, info)
    for p in protos:
        eng.check("prototype-cost-zero[%d]" % p, cost[p] == 0, info)
        _concrete(eng, "prototype-pred-nil[%d]" % p, pred[p] == NIL, info)
    for i in range(n_all):
        if pred[i] != NIL and 0 <= pred[i] < n_all:
            eng.check("link-equation[%d]" % i, cost[i] == zmax(cost[pred[i]], Wz[pred[i]][i]), info)
        elif status[i] != PROTOTYPE:
            _concrete(eng, "non-prototype-has-pred[%d]" % i, False, info)
    # optimality
    if n_all <= cfg.get("explicit_max_n", 4) and protos:
        for i in range(n_all):
            eng.check("cost-is-minimax[%d]" % i, cost[i] == models.minimax_term(Wz, protos, i, n_all), info)
    else:
        # Bellman certificate: feasible (link equations above, chains reach a zero-cost prototype)
        # and no relaxable arc.  Lemma "certificate => explicit form" is discharged separately.
        for i in range(n_all):
            for j in range(n_all):
                if i != j:
                    eng.check("no-relaxable-arc[%d->%d]" % (j, i), cost[i] <= zmax(cost[j], Wz[j][i]), info)
    # labels
    lab = [to_int(x) for x in ob["label"]]
    pl = [to_int(x) for x in ob["plabel"]]
    true_lab = [to_int(x) for x in out["labels"]]
    for i in range(n_all):
        ch = chains[i]
        if ch is not None and ch[-1] < len(true_lab):
            eng.check("label-of-root[%d]" % i, pl[i] == true_lab[ch[-1]], info)
            if semi:
                eng.check("final-label-of-root[%d]" % i, lab[i] == true_lab[ch[-1]], info)
        elif ch is not None:
            _concrete(eng, "root-is-labeled[%d]" % i, False, info)
    # conquest order is non-decreasing in cost
    if sorted(order) == list(range(n_all)):
        for a in range(len(order) - 1):
            eng.check("order-nondecreasing[%d]" % a, cost[order[a]] <= cost[order[a + 1]], info)


def tree_path(parent, u, v):
    """arcs on the tree path between u and v (parent map with root parent NIL)"""
    def up(x):
        p = [x]
        while parent[p[-1]] != NIL:
            p.append(parent[p[-1]])
        return p
    pu, pv = up(u), up(v)
    su = set(pu)
    lca = next(x for x in pv if x in su)
    arcs = []
    for path in (pu, pv):
        for x in path:
            if x == lca:
                break
            arcs.append((x, parent[x]))
    return arcs


def mst_edge_term(Wz, u, v, n):
    """Kruskal characterisation for distinct weights: (u,v) is in the MST iff no u-v path uses only lighter arcs"""
    w = Wz[u][v]
    alts = []
    mids = [x for x in range(n) if x not in (u, v)]
    for k in range(1, len(mids) + 1):
        for seq in itertools.permutations(mids, k):
            path = [u] + list(seq) + [v]
            alts.append(z3.And([Wz[path[a]][path[a + 1]] < w for a in range(len(path) - 1)]))
    return z3.Not(z3.Or(alts)) if alts else z3.BoolVal(True)


def oblig_c02(eng, cfg, out, info, after_fit):
    g = out["opf"].subgraph
    n = cfg["n"]
    nodes = g.nodes[:n]
    W = out["W"]
    Wz = [[to_real(W[i][j]) for j in range(n)] for i in range(n)]
    lab = [to_int(x) for x in out["labels"]]
    status = [nd.status for nd in nodes]
    if not after_fit:
        parent = [nd.pred for nd in nodes]
        ok_tree = parent[0] == NIL and all(models.chain(parent, i, n) is not None and
                                           models.chain(parent, i, n)[-1] == 0 for i in range(n))
        # The predecessor map left by the MST pass is an implementation detail: when it has the expected shape it is
        # checked to be a minimum spanning tree whose boundary endpoints are the prototypes (a sharper statement than
        # "some MST"); an implementation that keeps its tree elsewhere is judged by the status flags alone (below).
        if not ok_tree:
            parent = None
        tree = set()
        if parent is not None:
            for i in range(1, n):
                tree.add((min(i, parent[i]), max(i, parent[i])))
            # cycle property  =>  the tree is a minimum spanning tree (for any tie pattern)
            for u in range(n):
                for v in range(u + 1, n):
                    if (u, v) not in tree:
                        for (a, b) in tree_path(parent, u, v):
                            eng.check("cycle-property[(%d,%d) vs (%d,%d)]" % (u, v, a, b), Wz[u][v] >= Wz[a][b], info)
        # prototypes = endpoints of tree arcs joining different classes
        for i in (range(n) if parent is not None else []):
            inc = [lab[i] != lab[b if a == i else a] for (a, b) in tree if i in (a, b)]
            want = z3.Or(inc) if inc else z3.BoolVal(False)
            eng.check("prototype-iff-boundary-endpoint[%d]" % i,
                      want if status[i] == PROTOTYPE else z3.Not(want), info)
        if cfg.get("distinct"):
            for i in range(n):
                inc = [z3.And(mst_edge_term(Wz, i, j, n), lab[i] != lab[j]) for j in range(n) if j != i]
                want = z3.Or(inc)
                eng.check("prototype-iff-unique-mst-boundary[%d]" % i,
                          want if status[i] == PROTOTYPE else z3.Not(want), info)
    # every class present has a prototype
    for i in range(n):
        eng.check("class-has-prototype[%d]" % i,
                  z3.Or([lab[j] == lab[i] for j in range(n) if status[j] == PROTOTYPE] or [z3.BoolVal(False)]), info)
    if after_fit:
        for i in range(n):
            if status[i] == PROTOTYPE:
                eng.check("prototype-keeps-cost-0[%d]" % i, to_real(nodes[i].cost) == 0, info)
                _concrete(eng, "prototype-keeps-nil[%d]" % i, nodes[i].pred == NIL, info)
                eng.check("prototype-keeps-label[%d]" % i, to_int(nodes[i].predicted_label) == lab[i], info)


def spanning_trees(n):
    verts = list(range(n))
    edges = [(a, b) for a in verts for b in verts if a < b]
    out = []
    for tree in itertools.combinations(edges, n - 1):
        comp = list(range(n))

        def find(x):
            while comp[x] != x:
                x = comp[x]
            return x
        ok = True
        for a, b in tree:
            ra, rb = find(a), find(b)
            if ra == rb:
                ok = False
                break
            comp[ra] = rb
        if ok:
            out.append(tree)
    return out


def _tree_path_edges(tree, u, v, n):
    adj = {i: [] for i in range(n)}
    for a, b in tree:
        adj[a].append(b)
        adj[b].append(a)
    stack = [(u, [u])]
    while stack:
        x, path = stack.pop()
        if x == v:
            return [(min(path[k], path[k + 1]), max(path[k], path[k + 1])) for k in range(len(path) - 1)]
        for y in adj[x]:
            if y not in path:
                stack.append((y, path + [y]))
    return []


def oblig_some_mst(eng, cfg, out, info):
    """the prototype set is the class-boundary endpoint set of SOME minimum spanning tree (any tie pattern)"""
    n = cfg["n"]
    g = out["opf"].subgraph
    W = out["W"]
    Wz = [[to_real(W[i][j]) for j in range(n)] for i in range(n)]
    lab = [to_int(x) for x in out["labels"]]
    status = [g.nodes[i].status for i in range(n)]
    alts = []
    for tree in spanning_trees(n):
        tset = set(tree)
        cyc = []
        for u in range(n):
            for v in range(u + 1, n):
                if (u, v) not in tset:
                    for (a, b) in _tree_path_edges(tree, u, v, n):
                        cyc.append(Wz[u][v] >= Wz[a][b])
        same = []
        for i in range(n):
            inc = [lab[a] != lab[b] for (a, b) in tree if i in (a, b)]
            want = z3.Or(inc) if inc else z3.BoolVal(False)
            same.append(want if status[i] == PROTOTYPE else z3.Not(want))
        alts.append(z3.And(cyc + same))
    eng.check("prototype-set-is-boundary-of-some-mst", z3.Or(alts), info)
    for i in range(n, len(g.nodes)):
        eng.check("unlabeled-is-not-prototype[%d]" % i, g.nodes[i].status != PROTOTYPE, info)


def oblig_c03(eng, cfg, out, info):
    """every returned label is one the exhaustive scan could return"""
    snap = out["snap"]
    n_all = len(snap["cost"])
    W = out["W"]
    preds = out["preds"]
    cost = [to_real(c) for c in snap["cost"]]
    pl = [to_int(x) for x in snap["plabel"]]
    base = 0 if cfg.get("resub") else n_all
    for qi, p in enumerate(preds):
        q = [to_real(W[t][base + qi]) for t in range(n_all)]
        val = [zmax(cost[t], q[t]) for t in range(n_all)]
        alts = []
        for t in range(n_all):
            alts.append(z3.And([val[t] <= val[s] for s in range(n_all) if s != t] + [to_int(p) == pl[t]]))
        eng.check("prediction-is-an-exhaustive-minimiser[q%d]" % qi, z3.Or(alts), info)


def oblig_c04(eng, cfg, out, info):
    ob = observables(out)
    n = cfg["n"]
    lab = [to_int(x) for x in out["labels"]]
    for i in range(n):
        eng.check("train-sample-keeps-own-label[%d]" % i, to_int(ob["plabel"][i]) == lab[i], info)
    for i, p in enumerate(out["preds"]):
        eng.check("resubstitution[%d]" % i, to_int(p) == lab[i], info)


# ---------------------------------------------------------------------------
# paired runs: C11 (permutation / order-type invariance) and C15 (n_u = 0 equals supervised)

def upper_entries(W, n, N):
    ent = []
    for i in range(n):
        for j in range(i + 1, N):
            ent.append(W[i][j])
    return ent


def make_pair_harness(cfg, tw):
    n, nq, branch = cfg["n"], cfg.get("nq", 0), cfg["branch"]
    part = tuple(cfg["part"])
    K = cfg.get("K", max(part) + 1)
    mode = cfg["mode"]
    N = n + nq
    sup = tw.mod("opfython.models.supervised")
    semi_mod = tw.mod("opfython.models.semi_supervised")

    def fit_predict(cls, W, ids, labels, semi0=False):
        opf = models.build_opf(cls, branch, W)
        X, Y, I = models.data_for(branch, n, labels, idx=ids)
        if semi0:
            opf.fit(X, Y, symnp.zeros((0, 1)), I)
        else:
            opf.fit(X, Y, I)
        preds = None
        if nq:
            Xq, _, Iq = models.data_for(branch, nq, None, offset=n)
            preds = opf.predict(Xq, Iq)
        return opf, preds

    def harness():
        eng = core.engine()
        tie_free = mode in ("perm", "otype")
        W = models.sym_matrix(eng, N, symmetric=True, diag="free", distinct=False, positive=tie_free)
        if tie_free:
            eng.assume(z3.Distinct([to_real(x) for x in upper_entries(W, n, N)]))
        labels = models.sym_labels(eng, n, K, two_classes=False)
        assume_partition(eng, labels, part)
        ids = list(range(n))
        out = dict(W=W, labels=labels, ids_b=ids)
        if mode == "perm":
            k = cfg["swap"]
            ids_b = list(ids)
            ids_b[k], ids_b[k + 1] = ids_b[k + 1], ids_b[k]
            out["ids_b"] = ids_b
            A = fit_predict(sup.SupervisedOPF, W, ids, labels)
            B = fit_predict(sup.SupervisedOPF, W, ids_b, [labels[t] for t in ids_b])
        elif mode == "otype":
            V = models.sym_matrix(eng, N, symmetric=True, diag="free", name="v", positive=True)
            ew, evs = [to_real(x) for x in upper_entries(W, n, N)], [to_real(x) for x in upper_entries(V, n, N)]
            cons = []
            for a in range(len(ew)):
                for b in range(a + 1, len(ew)):
                    cons.append((ew[a] < ew[b]) == (evs[a] < evs[b]))
            eng.assume(z3.And(cons + [z3.Distinct(evs)]))
            out["V"] = V
            A = fit_predict(sup.SupervisedOPF, W, ids, labels)
            B = fit_predict(sup.SupervisedOPF, V, ids, labels)
        elif mode == "semi0":
            A = fit_predict(sup.SupervisedOPF, W, ids, labels)
            B = fit_predict(semi_mod.SemiSupervisedOPF, W, ids, labels, semi0=True)
        else:
            raise RuntimeError(mode)
        out["A"], out["B"] = A, B
        return out
    return harness


def pair_payload(eng, m, cfg, out):
    mats = [models.eval_matrix(eng, m, out["W"])]
    if "V" in out:
        mats.append(models.eval_matrix(eng, m, out["V"]))
    fl = [models.floats_of(x) for x in mats]
    if any(f is None for f in fl):
        return None
    ls = [eng.eval_model(m, l) for l in out["labels"]]
    return dict(kind="sup_pair", cfg=cfg, W=fl[0], V=fl[1] if len(fl) > 1 else None, labels=ls, ids_b=out["ids_b"])


def oblig_pair(eng, cfg, out, info):
    mode = cfg["mode"]
    (A, pa), (B, pb) = out["A"], out["B"]
    ids_b = out["ids_b"]
    na, nb = A.subgraph.nodes, B.subgraph.nodes
    eng.check("same-size", len(na) == len(nb), info)
    for j, s in enumerate(ids_b):
        a, b = na[s], nb[j]
        eng.check("same-status[%d]" % s, a.status == b.status, info)
        eng.check("same-assigned-label[%d]" % s, to_int(a.predicted_label) == to_int(b.predicted_label), info)
        if mode != "otype":
            eng.check("same-cost[%d]" % s, to_real(a.cost) == to_real(b.cost), info)
        if mode == "semi0":
            # (the stored true label is not compared: semi-supervised fit deliberately re-labels every
            #  conquered node with its propagated label -- the mechanism the property itself names)
            eng.check("same-pred[%d]" % s, a.pred == b.pred, info)
    if mode == "semi0":
        eng.check("same-order", list(A.subgraph.idx_nodes) == list(B.subgraph.idx_nodes), info)
    if pa is not None:
        for k, (x, y) in enumerate(zip(pa, pb)):
            eng.check("same-prediction[q%d]" % k, to_int(x) == to_int(y), info)


def run_pair(cfg):
    common.bootstrap()
    tw = common.get_twin()
    harness = make_pair_harness(cfg, tw)

    def on_leaf(eng, out):
        oblig_pair(eng, cfg, out, lambda m: pair_payload(eng, m, cfg, out))

    def witness(eng, m, out):
        p = pair_payload(eng, m, cfg, out)
        if p is None:
            return None
        ev = lambda x: common.fraction_to_float(eng.eval_model(m, x))
        exp = {}
        for tag in ("A", "B"):
            opf, preds = out[tag]
            exp[tag] = dict(cost=[ev(nd.cost) for nd in opf.subgraph.nodes],
                            status=[nd.status for nd in opf.subgraph.nodes],
                            plabel=[ev(nd.predicted_label) for nd in opf.subgraph.nodes],
                            preds=[ev(x) for x in preds] if preds is not None else None)
        p["expected"] = exp
        return p
    return common.explore(cfg, harness, twin=tw, on_leaf=on_leaf, witness_fn=witness,
                          witness_stride=cfg.get("wstride", 0), deadline_s=cfg.get("deadline_s", 1200),
                          seed=cfg.get("seed", 0))


OBLIG = {}


def run_config(cfg):
    common.bootstrap()
    tw = common.get_twin()
    prop = cfg["prop"]
    harness = make_harness(cfg, tw)

    def on_leaf(eng, out):
        info = lambda m: payload(eng, m, cfg, out)
        if prop == "C01":
            oblig_c01(eng, cfg, out, info)
        elif prop == "C15":
            oblig_c01(eng, cfg, out, info, semi=True)
            oblig_c02(eng, cfg, out, info, after_fit=True)
            oblig_some_mst(eng, cfg, out, info)
        elif prop == "C02":
            oblig_c02(eng, cfg, out, info, after_fit=not cfg.get("only_protos"))
            if cfg["n"] <= 4:
                # Or over all spanning trees (16 at n = 4, 125 at n = 5): at n = 5 the tree-shaped clauses above
                # (cycle property of the recorded tree, boundary endpoints, Kruskal uniqueness) carry the claim
                oblig_some_mst(eng, cfg, out, info)
        elif prop == "C03":
            oblig_c03(eng, cfg, out, info)
        elif prop == "C04":
            oblig_c04(eng, cfg, out, info)
        else:
            raise RuntimeError("unknown prop " + prop)

    def witness(eng, m, out):
        p = payload(eng, m, cfg, out)
        if p is None:
            return None
        p["expected"] = expected(eng, m, out)
        return p

    return common.explore(cfg, harness, twin=tw, on_leaf=on_leaf, witness_fn=witness,
                          witness_stride=cfg.get("wstride", 0), max_paths=cfg.get("max_paths"),
                          deadline_s=cfg.get("deadline_s", 1200), seed=cfg.get("seed", 0))
