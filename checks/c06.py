"""C06 -- each of the 47 named metrics computes its published closed form."""
from spec import metrics as SPEC

RUN = ("checks.c06", "run")
UNREPRODUCED_IS_INCONCLUSIVE = True
MAX_REPLAYS = 40


def run(cfg):
    from . import metrics
    if cfg.get("kind") == "registry":
        return metrics.run_registry(cfg)
    return metrics.run_config(cfg)


def configs(tier, seed):
    cfgs = [dict(kind="registry", weight=1)]
    ns = [1, 2, 3, 4] if tier == "quick" else [1, 2, 3, 4, 5, 6]
    for name in sorted(SPEC.CLOSED):
        for n in ns:
            cfgs.append(dict(metric=name, n=n, kind="equiv", weight=n * n, timeout_ms=20000 if tier == "quick" else 120000))
        # the same body reached through the model option
        cfgs.append(dict(metric=name, n=2, kind="equiv", via="model", weight=4, timeout_ms=20000))
        cfgs.append(dict(metric=name, n=2 if tier == "quick" else 3, kind="finite", weight=4, timeout_ms=20000))
        if name in SPEC.SUM_KERNEL:
            # beyond the directly compared lengths: value on n-vectors = sum of the one-coordinate kernels, for the
            # code and for the closed form; with the n = 1 equality this gives the closed form at these lengths too
            for n in ([5, 6, 8] if tier == "quick" else [7, 8, 10, 12, 16]):
                cfgs.append(dict(metric=name, n=n, kind="decomp", weight=n, timeout_ms=20000 if tier == "quick" else 120000))
    return cfgs


def signature(prop, cfg, viol):
    from .driver import strip_idx
    return "%s:%s:%s" % (prop, cfg.get("metric", "registry"), strip_idx(viol["name"]).split(":")[0])


def describe(v, tier):
    v.bounds = dict(metrics="all 47 registry entries, reached through DISTANCES[name] and through OPF(distance=name).distance_fn",
                    vector_length="1..4 (quick) / 1..6 (thorough) directly; the 27 sum-type metrics additionally at 5, 6, 8 (quick) / up to 16 (thorough) through the kernel decomposition",
                    registry="one z3 string query per direction: exists s accepted by the setter's whitelist (read from the current source) but not a registry key, and vice versa")
    v.assumptions = ["real arithmetic: 'up to floating-point rounding' is read as equality of the formulas over the reals",
                     "domains as in spec/metrics.py (R: all reals, P: componentwise >= 0), |x_i| <= 1e6",
                     "EPSILON shift applied to the closed form of the 32 decorated metrics",
                     "sqrt exact (r >= 0, r*r = t); log/exp uninterpreted, applied to canonicalised arguments"]
    v.outside = ["vector length > 6", "magnitude of rounding errors, overflow"]
    v.stubs = ["numpy -> symx.symnp", "numba.njit -> identity (with the `is True` lowering)", "math -> symx.symmath"]


def conformance(v, tier, seed):
    """every one of the 47 bodies, evaluated concretely through the twin inside a supervised fit/predict on the
    repository's own data, against the real njit code"""
    from . import conform
    return conform.gate(v, [("sup", name) for name in sorted(SPEC.CLOSED)])
