import argparse
import os
import sys

from . import common


def main():
    ap = argparse.ArgumentParser()
    ap.add_argument("prop")
    ap.add_argument("--tier", default=os.environ.get("VERIF_TIER", "quick"), choices=["quick", "thorough"])
    ap.add_argument("--replay")
    ap.add_argument("--seed", type=int, default=int(os.environ.get("VERIF_SEED", "0") or 0))
    a = ap.parse_args()
    common.bootstrap()
    from . import driver
    if a.replay:
        sys.exit(driver.replay_file(a.replay))
    sys.exit(driver.run(a.prop.upper(), a.tier, a.seed))


main()
