"""C12 -- the k-NN graph and density estimate are exact."""
RUN = ("checks.knn", "run_config")
MAX_WITNESSES = 150
MAX_REPLAYS = 16


def configs(tier, seed):
    cfgs = []
    arcs = [(2, 1), (2, 2), (3, 1), (3, 2), (3, 3), (3, 4), (4, 1)] if tier == "quick" else \
           [(2, 1), (2, 3), (3, 1), (3, 2), (3, 3), (3, 4), (4, 1), (4, 2), (4, 3), (4, 4)]
    for n, k in arcs:
        for branch in ("pre", "fn"):
            if n == 4 and branch == "fn" and (tier == "quick" or k >= 2):
                continue
            cfgs.append(dict(kind="arcs", n=n, k=k, branch=branch, weight=13 ** n * k, wstride=13 if n <= 3 else 499))
    # samples that stand for permuted / shifted rows of a larger pre-computed matrix (Node.idx != position)
    for n, k, rows in ([(3, 2, [3, 1, 2]), (3, 1, [2, 0, 3])] if tier == "quick" else [(3, 2, [3, 1, 2]), (3, 1, [2, 0, 3]), (4, 2, [4, 2, 0, 3])]):
        for branch in ("pre", "fn"):
            cfgs.append(dict(kind="arcs", n=n, k=k, branch=branch, idx=rows, weight=13 ** n * k, wstride=13))
    # histories of two calls on the same graph (create, destroy, create)
    hist = [(2, 1, 1), (3, 2, 1), (3, 1, 2), (3, 2, 2)] if tier == "quick" else \
           [(2, 1, 1), (3, 2, 1), (3, 1, 2), (3, 2, 2), (3, 3, 1), (4, 2, 1)]
    for n, k1, k in hist:
        for branch in ("pre", "fn"):
            if n == 4 and branch == "fn":
                continue
            cfgs.append(dict(kind="arcs", n=n, k=k, k1=k1, branch=branch, weight=13 ** n * 30, wstride=53 if n <= 3 else 1999))
    pdf = [(2, 1), (3, 1), (3, 2), (4, 1), (4, 2)] if tier == "quick" else [(2, 1), (3, 1), (3, 2), (4, 1), (4, 2), (4, 3), (5, 2), (5, 4)]
    for n, k in pdf:
        for branch in ("pre", "fn"):
            for pattern in ("next", "rev"):
                cfgs.append(dict(kind="pdf", n=n, k=k, branch=branch, pattern=pattern, weight=n ** n * k, timeout_ms=120000))
    for n in (1, 2, 3):
        cfgs.append(dict(kind="emh", n=n, weight=1))
    return cfgs


def signature(prop, cfg, viol):
    from .driver import strip_idx
    hist = "after-earlier-call" if cfg.get("k1") is not None else "fresh"
    return "%s:%s:%s:%s" % (prop, cfg.get("kind"), hist, strip_idx(viol["name"]))


def describe(v, tier):
    v.bounds = dict(create_arcs="n<=3 with k<=4, n=4 with k=1 (quick) / n=4 with k<=4 (thorough); k>n-1 included; plus samples standing for permuted rows of a larger matrix",
                    history="create_arcs(k1); destroy_arcs(); create_arcs(k2) on n<=3 (quick) / n<=4 (thorough)",
                    calculate_pdf="n<=4, k<=2 (quick) / n<=5, k<=4 (thorough) from an injected arc state, symbolic density bound > 0",
                    eliminate_maxima_height="n<=3, symbolic height (both signs)")
    v.assumptions = ["0 <= D[i][j] < FLOAT_MAX, D not assumed symmetric, diagonal free",
                     "exp is an uninterpreted function with positivity and strict monotonicity on occurring arguments",
                     "calculate_pdf: k <= n-1 (its documented use), bound > 0"]
    v.outside = ["n >= 5 for create_arcs (path count grows as (weak orderings of n-1)^n)", "value of exp itself"]
    v.stubs = ["numpy -> symx.symnp", "np.exp -> uninterpreted function with axioms", "logging -> null logger"]
