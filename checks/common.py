"""Shared infrastructure of the checks: bootstrap, parallel exploration, replay against the
real package, known findings, evidence."""
from __future__ import annotations

import hashlib
import json
import multiprocessing as mp
import os
import subprocess
import sys
import tempfile
import time
import traceback

VERIF = os.path.dirname(os.path.dirname(os.path.abspath(__file__)))
DEPS = os.path.join(VERIF, ".deps")
REPO = os.environ.get("VERIF_REPO", "/repo")
PY = "/venv/bin/python"
WHEELS = "/opt/veriftools/wheels"
NPROC = int(os.environ.get("VERIF_PROCS", "16"))

EXIT_OK, EXIT_VIOLATION, EXIT_HARNESS = 0, 1, 3


def bootstrap():
    """make z3 / cvc5 / mpmath importable (offline, from the local wheelhouse)."""
    marker = os.path.join(DEPS, ".ok")
    if not os.path.exists(marker):
        os.makedirs(DEPS, exist_ok=True)
        cmd = [PY, "-m", "pip", "install", "-q", "--no-index", "--find-links", WHEELS,
               "--target", DEPS, "--upgrade", "z3-solver", "cvc5", "mpmath"]
        r = subprocess.run(cmd, stdout=subprocess.PIPE, stderr=subprocess.STDOUT, text=True)
        if r.returncode != 0:
            print(r.stdout)
            raise SystemExit(EXIT_HARNESS)
        open(marker, "w").write("ok\n")
    if DEPS not in sys.path:
        sys.path.insert(0, DEPS)
    if VERIF not in sys.path:
        sys.path.insert(0, VERIF)


# ---------------------------------------------------------------------------
# worker side

_TWINS = {}


def get_twin(mutator_key=None, mutator=None, **kw):
    from symx import loader
    key = (mutator_key, tuple(sorted(kw.items())))
    if key not in _TWINS:
        _TWINS[key] = loader.Twin(REPO, ast_mutator=mutator, **kw).load_all()
    return _TWINS[key]


def explore(cfg, harness, twin=None, on_leaf=None, witness_fn=None, witness_stride=0,
            max_paths=None, deadline_s=None, solver_timeout_ms=60000, seed=0, prefix=None, logic=None,
            purify_div=False):
    """run one configuration; returns a picklable result dict"""
    import zlib
    from symx import core
    t0 = time.time()
    cap = os.environ.get("VERIF_DEADLINE_S")
    if cap:
        # optional wall-clock cap per configuration (a capped run reports exhaustive=false, never a verdict change)
        deadline_s = min(deadline_s, float(cap)) if deadline_s else float(cap)
    eng = core.Engine(seed=seed, solver_timeout_ms=solver_timeout_ms, max_paths=max_paths, logic=logic,
                      deadline=(t0 + deadline_s) if deadline_s else None)

    eng.purify_div = purify_div

    def leaf(e, res):
        if on_leaf is not None:
            on_leaf(e, res)
        if witness_fn is not None and witness_stride:
            k = zlib.crc32(e.path_string().encode())
            if (k + seed) % witness_stride == 0:
                try:
                    m = e.witness()
                    w = witness_fn(e, m, res)
                    if w is not None:
                        w["path"] = e.path_string()
                        e.emit("witness", w)
                except core.PathAbort:
                    pass

    if twin is not None:
        twin.entered.clear()
        twin.start_profile()     # the first path is profiled completely; later processes by sampling

        def hook(e):
            if zlib.crc32(e.path_string().encode()) % 8 == 0:
                twin.start_profile()
            else:
                sys.setprofile(None)
        eng.child_hook = hook
        eng.exit_hooks.append(lambda e: e.emit("functions", sorted(twin.entered)))
    err = None
    try:
        eng.explore(harness, on_leaf=leaf, prefix=prefix)
    except Exception as ex:  # harness error: never a verdict
        err = "%s: %s\n%s" % (type(ex).__name__, ex, traceback.format_exc()[-3000:])
    finally:
        if twin is not None:
            twin.stop_profile()
    if eng.errors and err is None:
        err = "; ".join(eng.errors[:3])
    viol = []
    for v in eng.violations:
        v = dict(v)
        v.pop("_m", None)
        viol.append(v)
    functions = set(twin.entered) if twin is not None else set()
    for fl in eng.emitted.get("functions", []):
        functions.update(fl)
    witnesses = eng.emitted.get("witness", [])[:64]
    extra = {k: v for k, v in eng.emitted.items() if k not in ("witness", "functions")}
    return dict(cfg=cfg, stats=eng.stats, exhaustive=eng.exhaustive and err is None,
                unknowns=eng.unknowns[:50], n_unknown=len(eng.unknowns),
                violations=viol[:200], n_violations=len(viol),
                illdefined=eng.illdefined[:50], n_illdefined=len(eng.illdefined),
                samples=eng.samples[:3], witnesses=witnesses, error=err, emitted=extra,
                functions=sorted(functions),
                sha256=dict(twin.sha256) if twin is not None else {},
                lowered=twin.lowered if twin is not None else 0,
                wall=time.time() - t0)


def _run_task(args):
    modname, fname, cfg = args
    try:
        bootstrap()
        mod = __import__(modname, fromlist=["x"])
        return getattr(mod, fname)(cfg)
    except BaseException as ex:
        return dict(cfg=cfg, error="%s: %s\n%s" % (type(ex).__name__, ex, traceback.format_exc()[-3000:]),
                    stats={}, exhaustive=False, violations=[], n_violations=0, unknowns=[], n_unknown=0,
                    illdefined=[], n_illdefined=0, samples=[], witnesses=[], functions=[], sha256={}, wall=0.0)


def run_parallel(modname, fname, cfgs, procs=None):
    procs = procs or NPROC
    tasks = [(modname, fname, c) for c in cfgs]
    if procs == 1 or len(tasks) <= 1:
        return [_run_task(t) for t in tasks]
    ctx = mp.get_context("fork")
    from symx import core
    core.SLOTS = ctx.Semaphore(procs)
    with ctx.Pool(min(procs, len(tasks)), maxtasksperchild=4) as pool:
        return list(pool.imap_unordered(_run_task, tasks, chunksize=1))


# ---------------------------------------------------------------------------
# real-package side

def run_real(batch, timeout=1800):
    """execute checks/real.py on a list of request dicts against the *real* package
    (real numpy + numba) in a fresh process; returns list of response dicts."""
    with tempfile.TemporaryDirectory(prefix="verif-real-") as td:
        inp = os.path.join(td, "in.json")
        out = os.path.join(td, "out.json")
        json.dump(batch, open(inp, "w"))
        env = dict(os.environ)
        env["VERIF_REPO"] = REPO
        env["PYTHONPATH"] = REPO + os.pathsep + VERIF
        env["NUMBA_DISABLE_PERFORMANCE_WARNINGS"] = "1"
        r = subprocess.run([PY, os.path.join(VERIF, "checks", "real.py"), inp, out], cwd=td, env=env,
                           stdout=subprocess.PIPE, stderr=subprocess.STDOUT, text=True, timeout=timeout)
        if r.returncode != 0 or not os.path.exists(out):
            raise RuntimeError("real runner failed:\n" + r.stdout[-4000:])
        return json.load(open(out))


# ---------------------------------------------------------------------------
# known findings

def load_known():
    p = os.path.join(VERIF, "known_findings.json")
    if not os.path.exists(p):
        return []
    return json.load(open(p)).get("findings", [])


def known_signatures(prop):
    return {f["signature"]: f for f in load_known() if f.get("property") == prop and f.get("status") == "known"}


# ---------------------------------------------------------------------------
# evidence + verdict

def fraction_to_float(x):
    from fractions import Fraction
    if isinstance(x, Fraction):
        return x.numerator / x.denominator
    return x


def jsonable(x):
    from fractions import Fraction
    if isinstance(x, Fraction):
        return {"q": [str(x.numerator), str(x.denominator)]}
    if isinstance(x, dict):
        return {str(k): jsonable(v) for k, v in x.items()}
    if isinstance(x, (list, tuple)):
        return [jsonable(v) for v in x]
    if isinstance(x, (int, float, str, bool)) or x is None:
        return x
    return str(x)


class Verdict:
    """collects everything a check produced and turns it into exit code + evidence"""

    def __init__(self, prop, tier, seed):
        self.prop = prop
        self.tier = tier
        self.seed = seed
        self.t0 = time.time()
        self.results = []
        self.harness_errors = []
        self.confirmed = []       # (signature, replay_path, description)
        self.known_hit = []
        self.unreproduced = []
        self.traces_validated = 0
        self.trace_mismatches = []
        self.extra = {}
        self.assumptions = []
        self.bounds = {}
        self.outside = []
        self.stubs = []
        self.inconclusive = []

    def add_results(self, results):
        for r in results:
            self.results.append(r)
            if r.get("error"):
                self.harness_errors.append("%s: %s" % (json.dumps(r.get("cfg"), default=str), r["error"]))

    # -- counterexample handling
    def write_replay(self, payload):
        os.makedirs(os.path.join(VERIF, "replays"), exist_ok=True)
        blob = json.dumps(payload, sort_keys=True, default=str)
        h = hashlib.sha256(blob.encode()).hexdigest()[:12]
        path = os.path.join(VERIF, "replays", "%s-%s.json" % (self.prop, h))
        open(path, "w").write(blob)
        return path

    def finish(self, level="model_checking", rule=None):
        wall = time.time() - self.t0
        agg = dict(paths=0, branch_points=0, queries=0, unsat=0, sat=0, unknown=0, solver_time=0.0,
                   obligations=0, discharged=0, aborted=0, forks=0)
        functions, sha, samples = set(), {}, []
        exhaustive = True
        n_unknown = 0
        for r in self.results:
            for k in agg:
                agg[k] += r.get("stats", {}).get(k, 0)
            functions.update(r.get("functions", []))
            sha.update(r.get("sha256", {}))
            if len(samples) < 6:
                for s in r.get("samples", [])[:1]:
                    samples.append(dict(cfg=r.get("cfg"), **s))
            exhaustive = exhaustive and bool(r.get("exhaustive"))
            n_unknown += r.get("n_unknown", 0)
        if not samples:
            samples = [dict(note="no path sample recorded")]
        known = known_signatures(self.prop)
        new_viol = []
        for sig, path, desc in self.confirmed:
            if sig in known:
                print("KNOWN-FINDING: property=%s %s" % (self.prop, known[sig].get("description", desc)))
                self.known_hit.append(sig)
            else:
                new_viol.append((sig, path, desc))
        seen = set()
        for sig, path, desc in new_viol:
            if sig in seen:
                continue
            seen.add(sig)
            print("VIOLATION property=%s replay=%s" % (self.prop, path))
            print("  signature: %s -- %s" % (sig, desc))
        cov = dict(
            states=max(agg["paths"], 0), transitions=agg["branch_points"],
            traces_validated_against_impl=self.traces_validated,
            samples=jsonable(samples), evaluations=agg["queries"],
            distinct_nontrivial=agg["discharged"],
            rule=rule or "one case = one feasible path (leaf) of the twin under symbolic inputs, enumerated by "
                         "DFS with solver-decided branches; distinct_nontrivial counts leaf obligations "
                         "discharged (unsat) by the solver",
            exhaustive=bool(exhaustive and not self.harness_errors and n_unknown == 0),
            obligations=agg["obligations"], discharged=agg["discharged"],
            queries=dict(unsat=agg["unsat"], sat=agg["sat"], unknown=agg["unknown"]),
            solver_time_s=round(agg["solver_time"], 3), solvers=["z3 5.1.0 (python wheel)"] + self.extra.pop("solvers", []),
            functions_encoded=sorted(functions), source_sha256=sha,
            bounds=self.bounds, outside_bounds=self.outside, stubs=self.stubs,
            inconclusive_sites=self.inconclusive, n_unknown=n_unknown,
            aborted_paths=agg["aborted"], configurations=len(self.results),
            known_findings_hit=self.known_hit, unreproduced_counterexamples=self.unreproduced[:10],
            trace_mismatches=self.trace_mismatches[:10], harness_errors=self.harness_errors[:5],
        )
        cov.update(jsonable(self.extra))
        cov["transitions"] = agg["branch_points"] + agg["forks"]
        if cov["states"] < 1 or cov["transitions"] < 1:
            # the schema's model-checking keys need >= 1; without them the generic counts (evaluations,
            # distinct_nontrivial) describe the run
            cov.pop("transitions", None) if cov["transitions"] < 1 else None
            if cov["states"] < 1:
                cov.pop("states", None)
        ev = dict(property_id=self.prop, tier=self.tier, seed=self.seed, level=level, coverage=cov,
                  assumptions=self.assumptions, wall_s=round(wall, 2), violations=len(seen))
        os.makedirs(os.path.join(VERIF, "evidence"), exist_ok=True)
        json.dump(ev, open(os.path.join(VERIF, "evidence", "%s.json" % self.prop), "w"), indent=1, default=str)
        print("%s tier=%s: %d configs, %d paths, %d obligations (%d discharged), %d queries "
              "(unsat %d / sat %d / unknown %d), solver %.1fs, traces validated %d, wall %.1fs, exhaustive=%s"
              % (self.prop, self.tier, len(self.results), agg["paths"], agg["obligations"], agg["discharged"],
                 agg["queries"], agg["unsat"], agg["sat"], agg["unknown"], agg["solver_time"],
                 self.traces_validated, wall, cov["exhaustive"]))
        if seen:
            return EXIT_VIOLATION
        if self.harness_errors or self.unreproduced or self.trace_mismatches:
            for e in self.harness_errors[:3]:
                print("HARNESS-ERROR:", e[:3000])
            for u in self.unreproduced[:3]:
                print("HARNESS-ERROR: counterexample did not reproduce on the real code:", json.dumps(u, default=str)[:1500])
            for t in self.trace_mismatches[:3]:
                print("HARNESS-ERROR: twin/real mismatch on a path witness:", json.dumps(t, default=str)[:1500])
            return EXIT_HARNESS
        if agg["paths"] < 1:
            print("HARNESS-ERROR: no leaves reached")
            return EXIT_HARNESS
        return EXIT_OK
