"""C10 -- pre-computed distances are equivalent to computing the metric on the fly."""
RUN = ("checks.precomp", "run_config")


def configs(tier, seed):
    cfgs = []
    for ext in ("txt", "csv"):
        if tier == "quick":
            cfgs.append(dict(model="sup", m=4, ntr=3, nte=1, ext=ext, labels=[0, 1, 0], weight=400, wstride=11))
            cfgs.append(dict(model="sup", m=3, ntr=2, nte=1, ext=ext, labels=[0, 1], normalize=True, weight=20, wstride=3))
            cfgs.append(dict(model="semi", m=4, ntr=2, nu=1, nte=1, ext=ext, labels=[0, 1], weight=100, wstride=5))
            cfgs.append(dict(model="uns", m=3, ntr=3, nte=0, k=1, ext=ext, weight=200))
            cfgs.append(dict(model="uns", m=3, ntr=2, nte=1, k=1, ext=ext, weight=100))
        else:
            for labels in ([0, 1, 0], [0, 0, 1], [0, 1, 1]):
                cfgs.append(dict(model="sup", m=5, ntr=3, nte=2, ext=ext, labels=labels, weight=4000, wstride=101))
            cfgs.append(dict(model="sup", m=3, ntr=3, nte=0, ext=ext, labels=[0, 1, 0], normalize=True, weight=200, wstride=3))
            cfgs.append(dict(model="sup", m=5, ntr=4, nte=1, ext=ext, labels=[0, 1, 0, 1], weight=9000, wstride=401))
            cfgs.append(dict(model="semi", m=5, ntr=2, nu=2, nte=1, ext=ext, labels=[0, 1], weight=2000, wstride=53))
            cfgs.append(dict(model="semi", m=5, ntr=3, nu=1, nte=1, ext=ext, labels=[0, 1, 0], weight=2000, wstride=53))
            # a real k search (the normalised cut decides best_k) on permuted row indices
            cfgs.append(dict(model="uns", m=3, ntr=3, nte=0, k=2, ext=ext, weight=400))
            cfgs.append(dict(model="uns", m=4, ntr=3, nte=1, k=2, ext=ext, weight=3000))
            cfgs.append(dict(model="uns", m=4, ntr=4, nte=0, k=2, ext=ext, weight=9000))
    return cfgs


def compare(w, rr):
    from .driver import _same
    if not rr.get("ok"):
        return "real code raised: %s" % rr.get("error")
    if rr.get("violated"):
        return "real pipeline disagrees with itself: %s" % rr["violated"][:3]
    for k, ev in w["expected"].items():
        if not _same(ev, rr["obs"].get(k)):
            return "observable %s differs: twin %r real %r" % (k, ev, rr["obs"].get(k))
    return None


def signature(prop, cfg, viol):
    from .driver import strip_idx
    return "%s:%s:%s:%s" % (prop, cfg.get("model"), cfg.get("ext"), strip_idx(viol["name"]))


def describe(v, tier):
    v.bounds = dict(dataset_rows="<= 4 (quick) / <= 5 (thorough)", train="<= 3 / <= 4 rows, every injective choice of training and test rows",
                    models="supervised, semi-supervised (labeled rows first: the only layout its API can express), unsupervised (k<=1 / k<=2)",
                    formats=["txt", "csv"], get_distances="raw and min-max normalised, on both models")
    v.assumptions = ["the metric is an arbitrary table D[row a][row b] >= 0, NOT assumed symmetric, registered under one registry name for both pipelines",
                     "file contract (symx.vfs): a table written with delimiter a parses under delimiter b iff a == b; default-format text round-trips float64 exactly",
                     "unsupervised: off-diagonal distances > 0.001 (keeps the density constant positive)"]
    v.outside = ["decimal formatting / parsing itself", "more than 5 rows"]
    v.stubs = ["numpy.savetxt / loadtxt -> virtual file system", "numpy -> symx.symnp", "np.exp -> uninterpreted function"]
