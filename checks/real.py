"""Runs requests against the REAL opfython package (real numpy + numba) in a fresh process.

usage: python real.py in.json out.json      (PYTHONPATH = $VERIF_REPO)

Every handler returns the real observables plus `violated`: the clauses of the property that the
real outputs break according to an independent brute-force oracle written in plain Python.
"""
from __future__ import annotations

import itertools
import json
import logging
import math
import os
import sys
import traceback

logging.disable(logging.CRITICAL)
REPO = os.environ.get("VERIF_REPO", "/repo")
if REPO not in sys.path:
    sys.path.insert(0, REPO)

import numpy as np  # noqa: E402

NIL = -1
PROTOTYPE = 1


def _f(x):
    if isinstance(x, (np.floating, float)):
        return float(x)
    if isinstance(x, (np.integer, int)):
        return int(x)
    return x


# ---------------------------------------------------------------------------
# supervised / semi-supervised

def _build(cls, branch, W, **kw):
    opf = cls(**kw)
    if branch == "pre":
        opf.pre_computed_distance = True
        opf.pre_distances = np.array(W, dtype=float)
    else:
        Wl = [list(map(float, r)) for r in W]
        opf.distance_fn = lambda a, b: Wl[int(a[0])][int(b[0])]
    return opf


def _data(branch, n, labels=None, offset=0, idx=None):
    ids = idx if idx is not None else [offset + i for i in range(n)]
    if branch == "pre":
        X = np.zeros((n, 1))
        I = np.array(ids, dtype=int)
    else:
        X = np.array([[float(t)] for t in ids]).reshape(n, 1)
        I = None
    Y = np.array(labels, dtype=int) if labels is not None else None
    return X, Y, I


def minimax(W, sources, target, n):
    if target in sources:
        return 0.0
    best = math.inf
    others = [v for v in range(n) if v != target]
    for s in sources:
        mids = [v for v in others if v != s]
        for k in range(len(mids) + 1):
            for seq in itertools.permutations(mids, k):
                path = [s] + list(seq) + [target]
                c = max(W[path[a]][path[a + 1]] for a in range(len(path) - 1))
                best = min(best, c)
    return best


def chain(pred, i, n):
    seen = [i]
    while pred[seen[-1]] != NIL:
        nxt = pred[seen[-1]]
        if nxt in seen or not (0 <= nxt < n):
            return None
        seen.append(nxt)
    return seen


def mst_weight(W, n):
    import itertools as it
    best = math.inf
    # Prim
    intree = {0}
    total = 0.0
    while len(intree) < n:
        w, v = min((W[a][b], b) for a in intree for b in range(n) if b not in intree)
        total += w
        intree.add(v)
    return total


def run_sup(req):
    from opfython.models.supervised import SupervisedOPF
    from opfython.models.semi_supervised import SemiSupervisedOPF
    from opfython.core import Subgraph
    cfg = req["cfg"]
    W = req["W"]
    labels = req["labels"]
    n, nu, nq = cfg["n"], cfg.get("nu", 0), cfg.get("nq", 0)
    branch = cfg["branch"]
    semi = cfg.get("semi", False)
    cls = SemiSupervisedOPF if semi else SupervisedOPF
    opf = _build(cls, branch, W)
    ids = cfg.get("ids")
    X, Y, I = _data(branch, n, labels, idx=ids[:n] if ids else None)
    if ids:      # the oracles index by position
        W = [[W[a][b] for b in ids] for a in ids]
    preds = None
    snap = None
    if cfg.get("only_protos"):
        opf.subgraph = Subgraph(X, Y, I=I)
        opf._find_prototypes()
    else:
        hist = cfg.get("hist", 0)
        if hist:
            N = n + nu + nq
            X0, Y0, I0 = _data(branch, hist, [i % 2 for i in range(hist)], offset=N)
            if semi:
                Xu0, _, _ = _data(branch, 1, None, offset=N + hist)
                opf.fit(X0, Y0, Xu0, I0)
            else:
                opf.fit(X0, Y0, I0)
            Xq0, _, Iq0 = _data(branch, 1, None, offset=n + nu)
            opf.predict(Xq0, Iq0)
            W = [r[:N] for r in W[:N]]
        if semi:
            Xu, _, _ = _data(branch, nu, None, offset=n)
            opf.fit(X, Y, Xu, I)
        else:
            opf.fit(X, Y, I)
        if nq or cfg.get("resub"):
            g = opf.subgraph
            snap = dict(cost=[_f(nd.cost) for nd in g.nodes], plabel=[_f(nd.predicted_label) for nd in g.nodes])
            if cfg.get("resub"):
                Xq, _, Iq = _data(branch, n, None, offset=0, idx=ids[:n] if ids else None)
            else:
                Xq, _, Iq = _data(branch, nq, None, offset=n + nu, idx=ids[n + nu:] if ids else None)
            preds = [_f(p) for p in opf.predict(Xq, Iq)]
    g = opf.subgraph
    obs = dict(cost=[_f(nd.cost) for nd in g.nodes], pred=[_f(nd.pred) for nd in g.nodes],
               plabel=[_f(nd.predicted_label) for nd in g.nodes], label=[_f(nd.label) for nd in g.nodes],
               status=[_f(nd.status) for nd in g.nodes], order=[_f(x) for x in g.idx_nodes], preds=preds)
    violated = judge_sup(cfg, W, labels, obs, snap)
    return dict(obs=obs, violated=violated)


def judge_sup(cfg, W, labels, obs, snap):
    prop = cfg["prop"]
    bad = []
    n_all = len(obs["cost"])
    n = cfg["n"]
    cost, pred, status, order, pl = obs["cost"], obs["pred"], obs["status"], obs["order"], obs["plabel"]
    protos = [i for i in range(n_all) if status[i] == PROTOTYPE]
    if prop in ("C01", "C15"):
        if sorted(order) != list(range(n_all)):
            bad.append("order-is-permutation")
        for i in range(n_all):
            ch = chain(pred, i, n_all)
            if ch is None or status[ch[-1]] != PROTOTYPE:
                bad.append("chain[%d]" % i)
                continue
            if pred[i] != NIL and cost[i] != max(cost[pred[i]], W[pred[i]][i]):
                bad.append("link-equation[%d]" % i)
            if ch[-1] >= n or pl[i] != labels[ch[-1]]:
                bad.append("label-of-root[%d]" % i)
            if prop == "C15" and (ch[-1] >= n or obs["label"][i] != labels[ch[-1]]):
                bad.append("final-label-of-root[%d]" % i)
        if protos:
            for i in range(n_all):
                if cost[i] != minimax(W, protos, i, n_all):
                    bad.append("cost-is-minimax[%d]" % i)
        else:
            bad.append("has-prototype")
        if sorted(order) == list(range(n_all)):
            for a in range(len(order) - 1):
                if cost[order[a]] > cost[order[a + 1]]:
                    bad.append("order-nondecreasing[%d]" % a)
    if prop in ("C02", "C15"):
        # prototypes must be the boundary endpoints of SOME minimum spanning tree of the labelled graph
        target = mst_weight(W, n)
        ok_some = False
        verts = list(range(n))
        edges = [(a, b) for a in verts for b in verts if a < b]
        for tree in itertools.combinations(edges, n - 1):
            # spanning?
            comp = list(range(n))

            def find(x):
                while comp[x] != x:
                    x = comp[x]
                return x
            okt = True
            for a, b in tree:
                ra, rb = find(a), find(b)
                if ra == rb:
                    okt = False
                    break
                comp[ra] = rb
            if not okt:
                continue
            if abs(sum(W[a][b] for a, b in tree) - target) > 0:
                # exact comparison is fine for small-integer / dyadic replay weights; tolerate fp noise
                if abs(sum(W[a][b] for a, b in tree) - target) > 1e-9 * max(1.0, abs(target)):
                    continue
            want = set()
            for a, b in tree:
                if labels[a] != labels[b]:
                    want.add(a)
                    want.add(b)
            if want == set(p for p in protos if p < n):
                ok_some = True
                break
        if not ok_some:
            bad.append("prototype-set-is-boundary-of-some-mst")
        for i in range(n):
            if not any(labels[j] == labels[i] for j in protos if j < n):
                bad.append("class-has-prototype[%d]" % i)
        if not cfg.get("only_protos"):
            for p in protos:
                if cost[p] != 0 or pred[p] != NIL or (p < n and pl[p] != labels[p]):
                    bad.append("prototype-keeps[%d]" % p)
        if any(p >= n for p in protos):
            bad.append("prototype-among-labeled")
    if prop == "C03":
        base = 0 if cfg.get("resub") else n_all
        for qi, p in enumerate(obs["preds"]):
            vals = [max(snap["cost"][t], W[t][base + qi]) for t in range(n_all)]
            mn = min(vals)
            if p not in [snap["plabel"][t] for t in range(n_all) if vals[t] == mn]:
                bad.append("prediction-is-an-exhaustive-minimiser[q%d]" % qi)
    if prop == "C04":
        for i in range(n):
            if pl[i] != labels[i]:
                bad.append("train-sample-keeps-own-label[%d]" % i)
        for i, p in enumerate(obs["preds"]):
            if p != labels[i]:
                bad.append("resubstitution[%d]" % i)
    return bad


def run_sup_pair(req):
    from opfython.models.supervised import SupervisedOPF
    from opfython.models.semi_supervised import SemiSupervisedOPF
    cfg = req["cfg"]
    n, nq, branch, mode = cfg["n"], cfg.get("nq", 0), cfg["branch"], cfg["mode"]
    labels = req["labels"]

    def fp(cls, W, ids, labs, semi0=False):
        opf = _build(cls, branch, W)
        X, Y, I = _data(branch, n, labs, idx=ids)
        if semi0:
            opf.fit(X, Y, np.zeros((0, 1)), I)
        else:
            opf.fit(X, Y, I)
        preds = None
        if nq:
            Xq, _, Iq = _data(branch, nq, None, offset=n)
            preds = [_f(p) for p in opf.predict(Xq, Iq)]
        g = opf.subgraph
        return dict(cost=[_f(nd.cost) for nd in g.nodes], status=[_f(nd.status) for nd in g.nodes],
                    plabel=[_f(nd.predicted_label) for nd in g.nodes], pred=[_f(nd.pred) for nd in g.nodes],
                    label=[_f(nd.label) for nd in g.nodes], order=[_f(x) for x in g.idx_nodes], preds=preds)
    ids = list(range(n))
    ids_b = req["ids_b"]
    A = fp(SupervisedOPF, req["W"], ids, labels)
    if mode == "perm":
        B = fp(SupervisedOPF, req["W"], ids_b, [labels[t] for t in ids_b])
    elif mode == "otype":
        B = fp(SupervisedOPF, req["V"], ids, labels)
    else:
        B = fp(SemiSupervisedOPF, req["W"], ids, labels, semi0=True)
    bad = []
    for j, s in enumerate(ids_b):
        if A["status"][s] != B["status"][j]:
            bad.append("same-status[%d]" % s)
        if A["plabel"][s] != B["plabel"][j]:
            bad.append("same-assigned-label[%d]" % s)
        if mode != "otype" and A["cost"][s] != B["cost"][j]:
            bad.append("same-cost[%d]" % s)
        if mode == "semi0" and A["pred"][s] != B["pred"][j]:
            bad.append("same-pred[%d]" % s)
    if mode == "semi0" and A["order"] != B["order"]:
        bad.append("same-order")
    if A["preds"] != B["preds"]:
        bad.append("same-prediction")
    return dict(obs=dict(A=A, B=B), violated=bad)


HANDLERS = {"sup": run_sup, "sup_pair": run_sup_pair}


def _register_optional():
    for modname in ("real_heap", "real_knn", "real_metrics", "real_misc"):
        try:
            mod = __import__(modname)
        except ImportError:
            continue
        HANDLERS.update(getattr(mod, "HANDLERS", {}))


def main():
    sys.path.insert(0, os.path.dirname(os.path.abspath(__file__)))
    _register_optional()
    reqs = json.load(open(sys.argv[1]))
    out = []
    for r in reqs:
        try:
            res = HANDLERS[r["kind"]](r)
            res["ok"] = True
        except Exception as ex:
            res = dict(ok=False, error="%s: %s" % (type(ex).__name__, ex), trace=traceback.format_exc()[-2000:],
                       exc_type=type(ex).__name__)
        out.append(res)
    json.dump(out, open(sys.argv[2], "w"), default=_f)


if __name__ == "__main__":
    main()
