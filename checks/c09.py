"""C09 -- a prediction depends only on the fitted model and the sample itself."""
RUN = ("checks.knn", "run_config")

B2 = [[0], [0, 1], [1, 0], [0, 0], [0]]


def configs(tier, seed):
    cfgs = []
    sizes = [(2, 1), (3, 1), (3, 2)] if tier == "quick" else [(2, 1), (3, 1), (3, 2), (4, 1), (4, 2), (4, 3)]
    for n, k in sizes:
        for model in ("knn", "uns"):
            for branch in ("pre", "fn"):
                cfgs.append(dict(kind="predict", n=n, k=k, model=model, branch=branch, nq=2, batches=B2, wstride=1,
                                 weight=(n ** k) * 200, timeout_ms=60000))
    if tier == "thorough":
        for model in ("knn", "uns"):
            cfgs.append(dict(kind="predict", n=3, k=1, model=model, branch="pre", nq=2,
                             batches=[[0], [1, 1, 0], [1, 0, 1], [0]], weight=5000))
    for n in ([2, 3] if tier == "quick" else [2, 3, 4]):
        for branch in ("pre", "fn"):
            cfgs.append(dict(kind="predict", n=n, k=1, model="sup", branch=branch, nq=2, batches=B2, wstride=1, weight=(n ** n) * 50))
            # arbitrary relevance marks left by earlier predictions vs a never-used model
            cfgs.append(dict(kind="predict", n=n, k=1, model="sup", branch=branch, nq=2, batches=[[0, 1], [1, 0]], symrel=True,
                             wstride=1, weight=(n ** n) * 60))
    return cfgs


def signature(prop, cfg, viol):
    from .driver import strip_idx
    return "%s:%s:%s" % (prop, cfg.get("model"), strip_idx(viol["name"]))


def describe(v, tier):
    v.bounds = dict(models="supervised (semi-supervised inherits predict), KNN-supervised, unsupervised",
                    state="injected fitted model with n<=3 (quick) / n<=4 (thorough) training samples, symbolic costs/labels/order",
                    histories="predict([a]); predict([a,b]); predict([b,a]); predict([a,a]); predict([a]) -- all outputs for a must agree, model state must be unchanged (thorough adds batches of 3); supervised additionally: arbitrary relevance marks (the only trace earlier predict calls leave) vs a never-used model")
    v.assumptions = ["exp uninterpreted; distances symbolic in [0, FLOAT_MAX)", "supervised: conquest order is any permutation with non-decreasing cost"]
    v.outside = ["batches larger than 3", "n > 4"]
    v.stubs = ["numpy -> symx.symnp", "np.exp -> uninterpreted function", "logging -> null logger"]
