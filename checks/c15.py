"""C15 -- semi-supervised training extends the optimum-path forest to unlabeled samples."""
from . import sup

RUN = ("checks.c15", "run")


def run(cfg):
    if cfg.get("mode") == "semi0":
        return sup.run_pair(cfg)
    return sup.run_config(cfg)


def configs(tier, seed):
    cfgs = []
    sizes = [(2, 1), (2, 2), (3, 1)] if tier == "quick" else [(2, 1), (2, 2), (3, 1), (2, 3), (3, 2), (4, 1)]
    for n, nu in sizes:
        for part in sup.partitions(n, 2, min(n, 3)):
            for branch in ("pre", "fn"):
                if n + nu >= 5 and branch == "fn":
                    continue
                cfgs.append(dict(n=n, nu=nu, K=3, part=list(part), branch=branch, semi=True, weight=10 ** (n + nu),
                                 wstride=7 if n + nu <= 3 else (97 if n + nu == 4 else 4001)))
    # labeled rows given in a non-default order (I_train != arange: Node.idx != position); unlabeled rows follow
    for n, nu, ids in ([(2, 1, [1, 0, 2]), (3, 1, [2, 0, 1, 3])] if tier == "quick" else
                       [(2, 1, [1, 0, 2]), (3, 1, [2, 0, 1, 3]), (2, 2, [1, 0, 2, 3]), (3, 2, [1, 2, 0, 3, 4])]):
        for part in sup.partitions(n, 2, min(n, 3)):
            for branch in ("pre", "fn"):
                cfgs.append(dict(n=n, nu=nu, K=3, part=list(part), branch=branch, semi=True, ids=ids, weight=10 ** (n + nu),
                                 wstride=7 if n + nu <= 3 else 97))
    # empty unlabeled set == supervised
    for n in ([2, 3, 4] if tier == "quick" else [2, 3, 4, 5]):
        for part in sup.partitions(n, 2, 3 if n < 5 else 2):
            for branch in ("pre", "fn"):
                if n >= 5 and branch == "fn":
                    continue
                cfgs.append(dict(n=n, nq=1 if n <= 4 else 0, K=3, part=list(part), branch=branch, mode="semi0",
                                 weight=10 ** n * 3, wstride=11 if n <= 3 else (197 if n == 4 else 9001)))
    return cfgs


def compare(w, rr):
    from .driver import default_compare, _same
    if w.get("kind") == "sup_pair":
        if not rr.get("ok"):
            return "real code raised: %s" % rr.get("error")
        for tag in ("A", "B"):
            for k, ev in w["expected"][tag].items():
                if ev is not None and not _same(ev, rr["obs"][tag][k]):
                    return "run %s observable %s differs: twin %r real %r" % (tag, k, ev, rr["obs"][tag][k])
        return None
    return default_compare(w, rr)


def describe(v, tier):
    v.bounds = dict(samples="labeled + unlabeled <= 4 (quick) / <= 5 (thorough), labeled >= 2",
                    label_patterns="every set partition of the labeled samples with >= 2 blocks",
                    equivalence="n_u = 0 vs SupervisedOPF on n <= 4 (quick) / 5 (thorough) with one symbolic query")
    v.assumptions = ["0 <= W < FLOAT_MAX symmetric over labeled+unlabeled samples; both weight branches",
                     "pre-computed branch: unlabeled rows are the rows n_l + i of the matrix (the only layout fit() can express)"]
    v.outside = ["more than 5 samples"]
    v.stubs = ["numpy -> symx.symnp", "numba.njit -> identity", "logging -> null logger"]
