"""C20 -- evaluation measures match their definitions and stay within bounds."""
RUN = ("checks.general", "run_config")


def configs(tier, seed):
    cfgs = []
    LK = [(2, 2), (3, 2), (4, 2), (3, 3), (4, 3), (5, 3)] if tier == "quick" else \
         [(2, 2), (3, 2), (4, 2), (5, 2), (3, 3), (4, 3), (5, 3), (6, 3), (4, 4), (5, 4), (6, 4), (7, 4)]
    for L, K in LK:
        w = K ** L
        big = L >= 5
        cfgs.append(dict(fn="opf_accuracy", L=L, K=K, fork_counts=True, weight=w * 40, wstride=3 if L <= 3 else 29))
        cfgs.append(dict(fn="confusion_matrix", L=L, K=K, fork_labels=big, weight=w, wstride=1 if not big else 7))
        cfgs.append(dict(fn="purity", L=L, K=K, fork_labels=big, weight=w * 2, wstride=1 if not big else 7))
        if L <= 6 and K ** L <= 1100:
            # labels are forked and every sample forks on label != pred: K^L * 2^L paths
            cfgs.append(dict(fn="opf_accuracy_per_label", L=L, K=K, fork_labels=True, weight=w * 2, wstride=3 if L <= 3 else 29))
    # lists instead of arrays (the API accepts both)
    cfgs.append(dict(fn="opf_accuracy", L=3, K=2, fork_counts=True, as_list=True, weight=10, wstride=1))
    cfgs.append(dict(fn="confusion_matrix", L=3, K=2, as_list=True, weight=10, wstride=1))
    # single class (K = 1): 0/0 -> NaN -> nansum
    for L in (1, 2, 3):
        cfgs.append(dict(fn="opf_accuracy", L=L, K=1, weight=1, wstride=1))
        cfgs.append(dict(fn="purity", L=L, K=1, weight=1, wstride=1))
    norm = [(2, 1), (3, 1), (3, 2)] if tier == "quick" else [(2, 1), (3, 1), (3, 2), (4, 2), (4, 3), (5, 2)]
    for L, C in norm:
        cfgs.append(dict(fn="normalize", L=L, C=C, weight=50 * L * C, wstride=1, timeout_ms=300000))
    return cfgs


def compare(w, rr):
    if not rr.get("ok"):
        return "real code raised: %s" % rr.get("error")
    import math
    ev, ob = w["expected"]["res"], rr["obs"]["res"]
    evl = ev if isinstance(ev, list) else [ev]
    obl = ob if isinstance(ob, list) else [ob]
    if len(evl) != len(obl):
        return "shape differs"
    for a, b in zip(evl, obl):
        if not math.isclose(float(a), float(b), rel_tol=1e-9, abs_tol=1e-9):
            return "value differs: twin %r real %r" % (ev, ob)
    return None


def signature(prop, cfg, viol):
    from .driver import strip_idx
    return "%s:%s:%s" % (prop, cfg.get("fn"), strip_idx(viol["name"]))


def describe(v, tier):
    v.bounds = dict(vector_length="<= 5 (quick) / <= 7 (thorough)", classes="<= 3 (quick) / <= 4 (thorough)",
                    normalize="L x C real matrices up to 3x2 (quick) / 5x2, 4x3 (thorough)")
    v.assumptions = ["labels and predictions are integers in [0,K), every class 0..K-1 present among the true labels",
                     "accuracy: class counts forked (concrete per path) or labels forked for L >= 6; predictions stay symbolic",
                     "normalize: columns non-constant; reals instead of floats (rounding error magnitude is outside the claim)"]
    v.outside = ["L > 7, K > 4", "floating-point rounding of the divisions"]
    v.stubs = ["numpy -> symx.symnp (bincount/unique/nansum/mean/std modelled)", "sqrt: exact real characterisation"]
