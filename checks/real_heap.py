"""real-package handlers for the heap (C05)."""
import math

WHITE, GRAY, BLACK = 0, 1, 2


def _better(policy, a, b):
    return a <= b if policy == "min" else a >= b


def _invariant(h, N, policy):
    L = h.last
    if not (-1 <= L < N):
        return "last-range"
    q = h.p[:L + 1]
    if any(not (isinstance(e, int) and 0 <= e < N) for e in q) or len(set(q)) != len(q):
        return "p-distinct-in-range"
    if any(x != -1 for x in h.p[L + 1:]):
        return "p-tail"
    for i, e in enumerate(q):
        if h.pos[e] != i:
            return "pos-inverse"
    for e in range(N):
        if (h.color[e] == GRAY) != (e in q):
            return "colour-gray-iff-queued"
        if h.color[e] == WHITE and h.pos[e] != -1:
            return "white-pos"
        if h.color[e] == BLACK and h.pos[e] not in (-1, 0):
            return "black-pos"
    for i in range(1, L + 1):
        if not _better(policy, h.cost[h.p[(i - 1) // 2]], h.cost[h.p[i]]):
            return "heap-order"
    return None


def run_step(req):
    from opfython.core.heap import Heap
    cfg = req["cfg"]
    N, policy, op = cfg["N"], cfg["policy"], cfg["op"]
    st = req["state"]
    h = Heap(N, policy)
    h.p, h.pos, h.color, h.cost, h.last = list(st["p"]), list(st["pos"]), list(st["color"]), list(st["cost"]), st["last"]
    pre_inv = _invariant(h, N, policy)
    q0 = set(h.p[:h.last + 1])
    c0 = list(h.cost)
    col0 = list(h.color)
    last0 = h.last
    arg = req["arg"]
    bad = []
    if op == "insert":
        ret = h.insert(int(arg["e"]))
    elif op == "remove":
        ret = h.remove()
    else:
        ret = h.update(int(arg["e"]), arg["c"])
    inv = _invariant(h, N, policy)
    if inv:
        bad.append("invariant-preserved:" + inv)
    q1 = set(h.p[:h.last + 1]) if -1 <= h.last < N else None
    if op == "insert":
        if last0 == N - 1:
            if ret is not False or q1 != q0:
                bad.append("insert-on-full")
        else:
            if ret is not True or q1 != q0 | {int(arg["e"])}:
                bad.append("insert-queued-set")
    elif op == "remove":
        if last0 == -1:
            if ret is not False or q1 != q0:
                bad.append("remove-on-empty")
        else:
            if isinstance(ret, bool) or ret not in q0:
                bad.append("removed-was-queued")
            else:
                if not all(_better(policy, c0[ret], c0[x]) for x in q0):
                    bad.append("removed-is-extremal")
                if q1 != q0 - {ret}:
                    bad.append("remove-queued-set")
                if h.color[ret] != BLACK:
                    bad.append("remove-colours")
    elif op == "update":
        if q1 != q0 | {int(arg["e"])}:
            bad.append("update-queued-set")
        if h.cost[int(arg["e"])] != arg["c"]:
            bad.append("update-costs")
    elif op == "update_black":
        if q1 != q0:
            bad.append("update-black-queued-set")
    if (h.is_empty() is True) != (h.last == -1) or (h.is_full() is True) != (h.last == N - 1):
        bad.append("truthful")
    obs = dict(p=list(h.p), color=list(h.color), last=h.last, cost=list(h.cost),
               ret=ret if isinstance(ret, bool) or ret is None else int(ret), pre_invariant=pre_inv)
    return dict(obs=obs, violated=bad)


def run_history(req):
    from opfython.core.heap import Heap
    cfg = req["cfg"]
    N, policy = cfg["N"], cfg["policy"]
    h = Heap(N, policy)
    queued, done, inserted, bad = {}, [], [], []
    for k, (op, e, c) in enumerate(req["ops"]):
        if op == "insert":
            full = len(queued) == N
            h.cost[e] = c
            ok = h.insert(e)
            if (ok is True) != (not full):
                bad.append("history-insert-result[%d]" % k)
            if not full:
                queued[e] = c
                inserted.append(e)
        elif op == "update_white":
            h.update(e, c)
            queued[e] = c
            inserted.append(e)
        elif op == "update":
            h.update(e, c)
            queued[e] = c
        else:
            r = h.remove()
            if not queued:
                if r is not False:
                    bad.append("history-remove-empty[%d]" % k)
            elif isinstance(r, bool) or r not in queued:
                bad.append("history-removed-queued[%d]" % k)
            else:
                if not all(_better(policy, queued[r], cx) for cx in queued.values()):
                    bad.append("history-removed-extremal[%d]" % k)
                del queued[r]
                done.append(r)
        if (h.is_empty() is True) != (len(queued) == 0) or (h.is_full() is True) != (len(queued) == N):
            bad.append("history-truthful[%d]" % k)
        inv = _invariant(h, N, policy)
        if inv:
            bad.append("history-invariant[%d]:%s" % (k, inv))
    while queued:
        r = h.remove()
        if isinstance(r, bool) or r not in queued:
            bad.append("drain-returns-queued")
            break
        if not all(_better(policy, queued[r], cx) for cx in queued.values()):
            bad.append("drain-extremal")
        del queued[r]
        done.append(r)
    if sorted(done) != sorted(inserted):
        bad.append("exactly-once")
    return dict(obs=dict(done=done), violated=bad)


HANDLERS = {"heap_step": run_step, "heap_history": run_history}
