"""Metric harnesses: C06 (closed forms, registry), C08 (axioms), C11(c) (Euclidean family), C07 (purity)."""
from __future__ import annotations

import ast
import os

import z3

from symx import core, symnp, symmath
from symx.core import to_real, rv, SymReal
from spec import metrics as SPEC
from . import common


# "zero (up to rounding)": the EPSILON = 1e-20 shift is far below float64 resolution for inputs of ordinary
# magnitude, but it is visible in exact real arithmetic (bhattacharyya(x, x) = -log(1 + n*EPSILON)).
TOL = rv(1e-9)


class Z3Algebra:
    """closed forms over z3 reals; sqrt/log/exp share the twin's symbolic functions"""

    def _w(self, t):
        return SymReal(t) if not isinstance(t, (int, float)) else t

    def sqrt(self, t):
        return to_real(symmath.sqrt(self._w(t)))

    def log(self, t):
        return to_real(symmath.log(self._w(t)))

    def exp(self, t):
        return to_real(symmath.exp(self._w(t)))

    def abs(self, t):
        return z3.If(t >= 0, t, -t)

    def max(self, a, b):
        return z3.If(a >= b, a, b)

    def min(self, a, b):
        return z3.If(a <= b, a, b)

    def maxl(self, ts):
        acc = ts[0]
        for t in ts[1:]:
            acc = z3.If(acc >= t, acc, t)
        return acc

    def ind_ne(self, a, b):
        return z3.If(a != b, z3.RealVal(1), z3.RealVal(0))

    def ite_ge0(self, c, a, b):
        return z3.If(c >= 0, a, b)


def sym_vec(eng, n, name, domain):
    v = [eng.real("%s%d" % (name, i)) for i in range(n)]
    cons = []
    if domain in ("P", "D"):
        cons += [t.e >= 0 for t in v]
    if domain == "D":
        cons.append(z3.Sum([t.e for t in v]) == 1)
    # keep magnitudes in a range where the library's constants make sense (no overflow talk)
    cons += [z3.And(t.e <= 1000000, t.e >= -1000000) for t in v]
    eng.assume(z3.And(cons))
    return v


def call(dist_mod, name, x, y, via="registry", tw=None):
    """evaluate the twin metric on fresh arrays (the EPSILON decorator writes into its arguments)"""
    f = dist_mod.DISTANCES[name]
    if via == "model":
        opf_mod = tw.mod("opfython.core.opf")
        f = opf_mod.OPF(distance=name).distance_fn
    return f(symnp.SArr.from_list(list(x), dtype="f"), symnp.SArr.from_list(list(y), dtype="f"))


def make_harness(cfg, tw):
    name, n, kind = cfg["metric"], cfg["n"], cfg["kind"]
    domain = cfg.get("domain") or SPEC.DOMAIN[name]
    dist = tw.mod("opfython.math.distance")
    A = Z3Algebra()

    def harness():
        eng = core.engine()
        symmath.LEVEL = "none" if kind in ("decomp", "equiv", "finite") else "full"
        x = sym_vec(eng, n, "x", domain)
        out = dict(x=x)
        if kind == "zeroself":
            out["val"] = call(dist, name, x, x)
            return out
        y = sym_vec(eng, n, "y", domain)
        out["y"] = y
        if kind == "decomp":
            out["val"] = call(dist, name, x, y)
            out["parts"] = [call(dist, name, [x[i]], [y[i]]) for i in range(n)]
            # the same decomposition for the closed form of the specification (completes the argument
            # "kernel equals its closed form  =>  the n-vector value equals the n-vector closed form")
            sh = (lambda t: t.e + rv(SPEC.EPSILON)) if name in SPEC.DECORATED else (lambda t: t.e)
            xs, ys = [sh(t) for t in x], [sh(t) for t in y]
            out["cf"] = SPEC.CLOSED[name](xs, ys, A)
            out["cf_parts"] = [SPEC.CLOSED[name]([xs[i]], [ys[i]], A) for i in range(n)]
            return out
        if kind == "equiv":
            out["val"] = call(dist, name, x, y, via=cfg.get("via", "registry"), tw=tw)
            xs = [t.e + rv(SPEC.EPSILON) if name in SPEC.DECORATED else t.e for t in x]
            ys = [t.e + rv(SPEC.EPSILON) if name in SPEC.DECORATED else t.e for t in y]
            out["cf"] = SPEC.CLOSED[name](xs, ys, A)
        elif kind == "sym":
            out["val"] = call(dist, name, x, y)
            out["val2"] = call(dist, name, y, x)
        elif kind in ("nonneg", "finite"):
            out["val"] = call(dist, name, x, y)
        elif kind == "triangle":
            z = sym_vec(eng, n, "z", domain)
            out["z"] = z
            out["xy"] = call(dist, name, x, y)
            out["yz"] = call(dist, name, y, z)
            out["xz"] = call(dist, name, x, z)
        else:
            raise RuntimeError(kind)
        return out
    return harness


def payload(eng, m, cfg, out):
    ev = lambda v: common.fraction_to_float(eng.eval_model(m, v))
    p = dict(kind="metric", cfg=cfg, x=[ev(v) for v in out["x"]])
    for k in ("y", "z"):
        if k in out:
            p[k] = [ev(v) for v in out[k]]
    return p


def obligations(eng, cfg, out, info):
    kind = cfg["kind"]
    if kind == "equiv":
        eng.check("value-equals-closed-form", to_real(out["val"]) == out["cf"], info)
    elif kind == "sym":
        eng.check("symmetric", to_real(out["val"]) == to_real(out["val2"]), info)
    elif kind == "nonneg":
        tol = TOL / cfg.get("share", 1)
        eng.check("non-negative", to_real(out["val"]) >= -tol, info)
    elif kind == "zeroself":
        v = to_real(out["val"])
        tol = TOL / cfg.get("share", 1)
        eng.check("zero-self-distance", z3.And(v <= tol, v >= -tol), info)
    elif kind == "triangle":
        if cfg["metric"] in ("lorentzian", "log_euclidean"):
            symmath.log_product_closure()
        eng.check("triangle-inequality", to_real(out["xz"]) <= to_real(out["xy"]) + to_real(out["yz"]), info)
    elif kind == "finite":
        eng.check("evaluates", True, info)
    elif kind == "decomp":
        n = cfg["n"]
        tot = z3.Sum([to_real(p) for p in out["parts"]])
        if cfg["metric"] == "gower":
            tot = tot / n
        eng.check("value-is-sum-of-coordinate-kernels", to_real(out["val"]) == tot, info)
        ctot = z3.Sum(out["cf_parts"])
        if cfg["metric"] == "gower":
            ctot = ctot / n
        eng.check("closed-form-is-sum-of-its-kernels", out["cf"] == ctot, info)
        # lifting lemmas over an uninterpreted kernel g (pure linear arithmetic): what holds for every
        # coordinate kernel holds for their sum
        g = z3.Function("g", z3.RealSort(), z3.RealSort(), z3.RealSort())
        a = [z3.Real("a%d" % i) for i in range(n)]
        b = [z3.Real("b%d" % i) for i in range(n)]
        c = [z3.Real("c%d" % i) for i in range(n)]
        S = lambda u, v: z3.Sum([g(u[i], v[i]) for i in range(n)])
        eng.check("lift-symmetric", z3.Implies(z3.And([g(a[i], b[i]) == g(b[i], a[i]) for i in range(n)]), S(a, b) == S(b, a)))
        eng.check("lift-non-negative", z3.Implies(z3.And([g(a[i], b[i]) >= -TOL / n for i in range(n)]), S(a, b) >= -TOL))
        eng.check("lift-zero-self", z3.Implies(z3.And([z3.And(g(a[i], a[i]) <= TOL / n, g(a[i], a[i]) >= -TOL / n) for i in range(n)]),
                                               z3.And(S(a, a) <= TOL, S(a, a) >= -TOL)))
        eng.check("lift-triangle", z3.Implies(z3.And([g(a[i], c[i]) <= g(a[i], b[i]) + g(b[i], c[i]) for i in range(n)]),
                                              S(a, c) <= S(a, b) + S(b, c)))


def run_config(cfg):
    common.bootstrap()
    tw = common.get_twin()
    harness = make_harness(cfg, tw)

    def on_leaf(eng, out):
        obligations(eng, cfg, out, lambda m: payload(eng, m, cfg, out))

    r = common.explore(cfg, harness, twin=tw, on_leaf=on_leaf, deadline_s=cfg.get("deadline_s"),
                       seed=cfg.get("seed", 0), solver_timeout_ms=cfg.get("timeout_ms", 20000), logic="fresh",
                       purify_div=cfg.get("purify", False))
    # well-definedness side conditions that can fail on the domain are violations of "finite"
    for ill in r.get("illdefined", []):
        vals = {}
        for k, v in ill.get("model", {}).items():
            vals[k] = _num(v)
        n = cfg["n"]
        req = dict(kind="metric", cfg=dict(cfg, kind="finite"), x=[vals.get("x%d" % i, 0.0) for i in range(n)],
                   y=[vals.get("y%d" % i, vals.get("x%d" % i, 0.0)) for i in range(n)])
        r["violations"].append(dict(name="well-defined:" + ill["what"], model=ill.get("model"), path=ill.get("path"), info=req))
        r["n_violations"] += 1
    return r


def run_fp(cfg):
    """floating-point robustness: the twin is run under the standard rounding model; every radicand,
    log argument and denominator that can leave its domain is a candidate, replayed on the real code"""
    common.bootstrap()
    tw = common.get_twin()
    name, n = cfg["metric"], cfg["n"]
    domain = SPEC.DOMAIN[name]
    dist = tw.mod("opfython.math.distance")
    results = []
    for variant in ("self", "pair"):
        def harness():
            eng = core.engine()
            eng.rounding = False
            symmath.LEVEL = "none"
            x = sym_vec(eng, n, "x", domain)
            y = x if variant == "self" else sym_vec(eng, n, "y", domain)
            # inputs of ordinary magnitude (away from overflow / denormals), exact zeros allowed
            eng.assume(z3.And([z3.Or(t.e == 0, z3.And(t.e >= rv(1e-3), t.e <= 1000)) if domain != "R" else
                               z3.And(t.e >= -1000, t.e <= 1000) for t in (list(x) if variant == "self" else list(x) + list(y))]))
            eng.rounding = True
            try:
                val = call(dist, name, x, y)
            finally:
                eng.rounding = False
            return dict(x=x, y=y, val=val)

        from symx import core as _c
        import time as _t
        t0 = _t.time()
        eng = _c.Engine(seed=cfg.get("seed", 0), solver_timeout_ms=cfg.get("timeout_ms", 20000), logic="fresh", mode="replay")
        eng.enum_models = 12
        err = None
        try:
            eng.explore(harness)
        except Exception as ex:
            import traceback
            err = "%s: %s\n%s" % (type(ex).__name__, ex, traceback.format_exc()[-2000:])
        viol = []
        for ill in eng.illdefined:
            for mdl in [ill["model"]] + ill.get("more_models", []):
                vals = {k: _num(v) for k, v in mdl.items()}
                xs = [vals.get("x%d" % i, 0.0) for i in range(n)]
                ys = xs if variant == "self" else [vals.get("y%d" % i, 0.0) for i in range(n)]
                viol.append(dict(name="fp-well-defined:" + ill["what"], model=mdl, path=ill.get("path"),
                                 info=dict(kind="metric", cfg=dict(cfg, kind="finite"), x=xs, y=ys)))
        results.append(dict(stats=eng.stats, violations=viol, unknowns=eng.unknowns, error=err,
                            exhaustive=eng.exhaustive, samples=eng.samples, wall=_t.time() - t0))
    stats = {}
    for r in results:
        for k, v in r["stats"].items():
            stats[k] = stats.get(k, 0) + v if k != "max_depth" else 0
    viol = [v for r in results for v in r["violations"]]
    unk = [u for r in results for u in r["unknowns"]]
    err = "; ".join(r["error"] for r in results if r["error"]) or None
    return dict(cfg=cfg, stats=stats, exhaustive=all(r["exhaustive"] for r in results) and err is None,
                unknowns=unk[:20], n_unknown=len(unk), violations=viol[:60], n_violations=len(viol),
                illdefined=[], n_illdefined=0, samples=results[0]["samples"][:1], witnesses=[], error=err,
                functions=["opfython/math/distance.py:%s_distance" % name, "opfython/utils/decorator.py:avoid_zero_division"],
                sha256=dict(tw.sha256), wall=sum(r["wall"] for r in results))


FAMILY = ["euclidean", "squared_euclidean", "average_euclidean", "log_euclidean", "log_squared_euclidean"]


def run_family(cfg):
    """C11(c): each of the five Euclidean-family identifiers is a strictly increasing function of
    S = sum (x_i - y_i)^2, hence induces the same order type on every data set"""
    common.bootstrap()
    tw = common.get_twin()
    name, n = cfg["metric"], cfg["n"]
    dist = tw.mod("opfython.math.distance")

    def harness():
        eng = core.engine()
        symmath.LEVEL = "full"
        x, y = sym_vec(eng, n, "x", "R"), sym_vec(eng, n, "y", "R")
        u, v = sym_vec(eng, n, "u", "R"), sym_vec(eng, n, "v", "R")
        return dict(x=x, y=y, u=u, v=v, a=call(dist, name, x, y), b=call(dist, name, u, v))

    def on_leaf(eng, out):
        S1 = z3.Sum([(to_real(p) - to_real(q)) * (to_real(p) - to_real(q)) for p, q in zip(out["x"], out["y"])])
        S2 = z3.Sum([(to_real(p) - to_real(q)) * (to_real(p) - to_real(q)) for p, q in zip(out["u"], out["v"])])
        a, b = to_real(out["a"]), to_real(out["b"])
        info = lambda m: dict(kind="metric_family", cfg=cfg, **{k: [common.fraction_to_float(eng.eval_model(m, t)) for t in out[k]]
                                                                   for k in ("x", "y", "u", "v")})
        eng.check("strictly-increasing-in-the-squared-euclidean-distance", z3.And((S1 < S2) == (a < b), (S1 == S2) == (a == b)), info)
    return common.explore(cfg, harness, twin=tw, on_leaf=on_leaf, seed=cfg.get("seed", 0),
                          solver_timeout_ms=cfg.get("timeout_ms", 30000), logic="fresh")


def _num(s):
    s = str(s).replace("?", "")
    try:
        if "/" in s:
            a, b = s.split("/")
            return int(a) / int(b)
        return float(s)
    except Exception:
        return 0.0


# ---------------------------------------------------------------------------
# registry / whitelist (C06 b)

def whitelist_from_source(repo):
    """the list literal of the `distance` setter, read from the current source"""
    src = open(os.path.join(repo, "opfython", "core", "opf.py")).read()
    tree = ast.parse(src)
    for node in ast.walk(tree):
        if isinstance(node, ast.FunctionDef) and node.name == "distance" and len(node.args.args) == 2:
            for sub in ast.walk(node):
                if isinstance(sub, ast.Compare) and isinstance(sub.ops[0], (ast.NotIn, ast.In)):
                    lst = sub.comparators[0]
                    if isinstance(lst, (ast.List, ast.Tuple, ast.Set)):
                        return [e.value for e in lst.elts if isinstance(e, ast.Constant)]
    return None


def run_registry(cfg):
    """accepted_by_setter(s) <=> s in DISTANCES, for an arbitrary string s (one z3 string query per
    direction, sides obtained from the twin), plus: every name resolves through the model option to
    the registry object."""
    common.bootstrap()
    import time
    t0 = time.time()
    tw = common.get_twin()
    dist = tw.mod("opfython.math.distance")
    opf_mod = tw.mod("opfython.core.opf")
    exc = tw.mod("opfython.utils.exception")
    registry = sorted(dist.DISTANCES)
    white = whitelist_from_source(common.REPO)
    viol = []
    stats = dict(paths=1, branch_points=0, queries=0, unsat=0, sat=0, unknown=0, solver_time=0.0,
                 obligations=0, discharged=0, aborted=0, forks=0)
    s = z3.String("s")
    in_reg = z3.Or([s == z3.StringVal(k) for k in registry])
    if white is None:
        viol.append(dict(name="whitelist-not-found", info=dict(kind="registry", cfg=cfg, s=None), model={}, path=""))
        in_white = z3.BoolVal(False)
    else:
        in_white = z3.Or([s == z3.StringVal(k) for k in white])
    for nm, f in (("accepted-but-not-in-registry", z3.And(in_white, z3.Not(in_reg))),
                  ("in-registry-but-rejected", z3.And(in_reg, z3.Not(in_white)))):
        sol = z3.Solver()
        sol.set("timeout", 20000)
        sol.add(f)
        stats["obligations"] += 1
        stats["queries"] += 1
        r = sol.check()
        stats[str(r)] += 1
        if r == z3.unsat:
            stats["discharged"] += 1
        elif r == z3.sat:
            w = sol.model()[s].as_string()
            viol.append(dict(name=nm, info=dict(kind="registry", cfg=cfg, s=w), model=dict(s=w), path=""))
    # the twin's setter really implements that membership test (executed on every name and on near misses)
    probes = list(registry) + [k + "_" for k in registry[:3]] + ["", "Euclidean", "l2"]
    for k in probes:
        stats["obligations"] += 1
        try:
            o = opf_mod.OPF(distance=k)
            accepted = True
            same = o.distance_fn is dist.DISTANCES.get(k)
        except KeyError:
            accepted, same = True, False
        except exc.Error:
            accepted, same = False, True
        want = k in registry
        if accepted != want or (accepted and not same):
            viol.append(dict(name="model-option-resolves-to-registry-object", info=dict(kind="registry", cfg=cfg, s=k),
                             model=dict(s=k), path=""))
        else:
            stats["discharged"] += 1
    return dict(cfg=cfg, stats=stats, exhaustive=True, unknowns=[], n_unknown=0, violations=viol, n_violations=len(viol),
                illdefined=[], n_illdefined=0,
                samples=[dict(path="", path_condition=["s in whitelist xor s in registry"], n_constraints=1,
                              registry_size=len(registry), whitelist_size=len(white or []))],
                witnesses=[], error=None, functions=["opfython/core/opf.py:OPF.distance", "opfython/math/distance.py:DISTANCES"],
                sha256=dict(tw.sha256), wall=time.time() - t0)
