"""C20 -- evaluation measures (opfython.math.general) against their definitions."""
from __future__ import annotations

import z3

from symx import core, symnp
from symx.core import to_int, to_real
from . import common


def _cnt(conds):
    return z3.Sum([z3.If(c, z3.IntVal(1), z3.IntVal(0)) for c in conds]) if conds else z3.IntVal(0)


def make_harness(cfg, tw):
    g = tw.mod("opfython.math.general")
    fn, L, K = cfg["fn"], cfg["L"], cfg.get("K", 1)

    def harness():
        eng = core.engine()
        if fn == "normalize":
            C = cfg["C"]
            M = [[eng.real("a_%d_%d" % (i, j)) for j in range(C)] for i in range(L)]
            # non-constant columns
            for j in range(C):
                eng.assume(z3.Or([M[i][j].e != M[0][j].e for i in range(1, L)]))
            arr = symnp.SArr.from_list(M, tag="caller:array")
            res = g.normalize(arr)
            return dict(M=M, res=res)
        labels = [eng.int("y%d" % i, 0, K - 1) for i in range(L)]
        preds = [eng.int("p%d" % i, 0, K - 1) for i in range(L)]
        for c in range(K):
            eng.assume(z3.Or([l.e == c for l in labels]))
        if cfg.get("fork_counts"):
            for c in range(K):
                eng.fork_int(_cnt([l.e == c for l in labels]))
        if cfg.get("fork_labels"):
            labels = [eng.fork_int(l.e) for l in labels]
        as_list = cfg.get("as_list", False)
        la = list(labels) if as_list else symnp.SArr.from_list(labels, dtype="i")
        pa = list(preds) if as_list else symnp.SArr.from_list(preds, dtype="i")
        res = getattr(g, fn)(la, pa)
        return dict(labels=labels, preds=preds, res=res)
    return harness


def payload(eng, m, cfg, out):
    if cfg["fn"] == "normalize":
        M = [[eng.eval_model(m, v) for v in row] for row in out["M"]]
        return dict(kind="measure", cfg=cfg, M=[[common.fraction_to_float(v) for v in r] for r in M])
    return dict(kind="measure", cfg=cfg, labels=[eng.eval_model(m, x) for x in out["labels"]],
                preds=[eng.eval_model(m, x) for x in out["preds"]])


def obligations(eng, cfg, out, info):
    fn, L, K = cfg["fn"], cfg["L"], cfg.get("K", 1)
    res = out["res"]
    if fn == "normalize":
        C = cfg["C"]
        M = out["M"]
        if not isinstance(res, symnp.SArr) or res.shape != (L, C):
            eng.check("normalize-shape", False, info)
            return
        for j in range(C):
            col = [to_real(M[i][j]) for i in range(L)]
            mean = z3.Sum(col) / L
            var = z3.Sum([(v - mean) * (v - mean) for v in col]) / L
            for i in range(L):
                r = to_real(res._get((i, j)))
                # r = (v - mean)/std  with  std >= 0, std^2 = var   <=>   r*r*var = (v-mean)^2 and sign(r) = sign(v-mean)
                d = col[i] - mean
                eng.check("normalize-value[%d,%d]" % (i, j),
                          z3.And(r * r * var == d * d, z3.Implies(d > 0, r > 0), z3.Implies(d < 0, r < 0),
                                 z3.Implies(d == 0, r == 0)), info)
        return
    lab = [to_int(x) for x in out["labels"]]
    prd = [to_int(x) for x in out["preds"]]
    n = [_cnt([l == c for l in lab]) for c in range(K)]
    if fn == "opf_accuracy":
        acc = to_real(res)
        if K >= 2:
            total = z3.RealVal(0)
            for c in range(K):
                fp = _cnt([z3.And(prd[i] == c, lab[i] != c) for i in range(L)])
                fnn = _cnt([z3.And(lab[i] == c, prd[i] != c) for i in range(L)])
                total = total + z3.ToReal(fp) / z3.ToReal(L - n[c]) + z3.ToReal(fnn) / z3.ToReal(n[c])
            eng.check("accuracy-definition", acc == 1 - total / (2 * K), info)
        eng.check("accuracy-in-unit-interval", z3.And(acc >= 0, acc <= 1), info)
        allc = z3.And([lab[i] == prd[i] for i in range(L)])
        eng.check("accuracy-one-iff-all-correct", (acc == 1) == allc, info)
    elif fn == "confusion_matrix":
        if not isinstance(res, symnp.SArr) or res.shape != (K, K):
            eng.check("confusion-shape", False, info)
            return
        tot = z3.RealVal(0)
        for a in range(K):
            for b in range(K):
                v = to_real(res._get((a, b)))
                tot = tot + v
                eng.check("confusion-entry[%d,%d]" % (a, b),
                          v == z3.ToReal(_cnt([z3.And(lab[i] == a, prd[i] == b) for i in range(L)])), info)
        eng.check("confusion-total", tot == L, info)
    elif fn == "opf_accuracy_per_label":
        if not isinstance(res, symnp.SArr) or res.shape != (K,):
            eng.check("per-label-shape", False, info)
            return
        for c in range(K):
            tp = _cnt([z3.And(lab[i] == c, prd[i] == c) for i in range(L)])
            eng.check("per-label-is-recall[%d]" % c, to_real(res._get((c,))) * z3.ToReal(n[c]) == z3.ToReal(tp), info)
    elif fn == "purity":
        pur = to_real(res)
        eng.check("purity-range", z3.And(pur > 0, pur <= 1), info)
        # group b is single-class iff at most one true class occurs among samples predicted b
        pure = z3.And([z3.Implies(z3.And(prd[i] == prd[j]), lab[i] == lab[j]) for i in range(L) for j in range(i + 1, L)])
        eng.check("purity-one-iff-groups-pure", (pur == 1) == pure, info)
        # definition: sum over predicted groups of the majority count, over L
        tot = z3.IntVal(0)
        for b in range(K):
            cnts = [_cnt([z3.And(lab[i] == a, prd[i] == b) for i in range(L)]) for a in range(K)]
            mx = cnts[0]
            for c2 in cnts[1:]:
                mx = z3.If(c2 >= mx, c2, mx)
            tot = tot + mx
        eng.check("purity-definition", pur * L == z3.ToReal(tot), info)


def run_config(cfg):
    common.bootstrap()
    tw = common.get_twin()
    harness = make_harness(cfg, tw)

    def on_leaf(eng, out):
        obligations(eng, cfg, out, lambda m: payload(eng, m, cfg, out))

    def witness(eng, m, out):
        p = payload(eng, m, cfg, out)
        res = out["res"]
        ev = lambda x: common.fraction_to_float(eng.eval_model(m, x))
        if isinstance(res, symnp.SArr):
            p["expected"] = dict(res=[ev(x) for x in res.flat()])
        else:
            p["expected"] = dict(res=ev(res))
        return p
    return common.explore(cfg, harness, twin=tw, on_leaf=on_leaf, witness_fn=witness,
                          witness_stride=cfg.get("wstride", 0), deadline_s=cfg.get("deadline_s"),
                          seed=cfg.get("seed", 0), solver_timeout_ms=cfg.get("timeout_ms", 120000),
                          logic="fresh" if cfg["fn"] == "normalize" or cfg.get("fresh") else None)
