"""C11 -- invariance to training order and to monotone rescaling of the metric."""
from . import sup

RUN = ("checks.c11", "run")


def run(cfg):
    if cfg.get("mode") == "family":
        from . import metrics
        return metrics.run_family(cfg)
    return sup.run_pair(cfg)


def configs(tier, seed):
    cfgs = []
    sizes = [2, 3, 4] if tier == "quick" else [2, 3, 4, 5]
    for n in sizes:
        kmax = 3 if n < 4 or tier == "thorough" else 2
        if n == 5:
            kmax = 2
        parts = sup.partitions(n, 2, kmax)
        if n == 5:
            parts = [(0, 0, 0, 0, 1), (0, 0, 0, 1, 1), (0, 1, 0, 1, 0), (0, 1, 1, 1, 1)]
        for part in parts:
            for branch in ("pre", "fn"):
                if (tier == "quick" and n == 4 and branch == "fn") or (n == 5 and branch == "fn"):
                    continue
                ws = 11 if n <= 3 else (97 if n == 4 else 4001)
                for k in (range(n - 1) if n < 5 else (0, 3)):
                    cfgs.append(dict(n=n, nq=1, K=3, part=list(part), branch=branch, mode="perm", swap=k,
                                     weight=10 ** n * 3, wstride=ws))
                if n <= 3 or (tier == "thorough" and n == 4):
                    cfgs.append(dict(n=n, nq=1, K=3, part=list(part), branch=branch, mode="otype",
                                     weight=10 ** n * 4, wstride=ws))
    from .metrics import FAMILY
    for name in FAMILY:
        for n in ([1, 2] if tier == "quick" else [1, 2, 3]):
            cfgs.append(dict(mode="family", metric=name, n=n, weight=5, timeout_ms=30000 if tier == "quick" else 240000))
    return cfgs


UNREPRODUCED_IS_INCONCLUSIVE = False
from .c15 import compare  # noqa: E402


def describe(v, tier):
    v.bounds = dict(n_training_samples="2..4 (quick) / 2..5 (thorough)", queries="1 symbolic query",
                    permutations="every adjacent transposition (they generate the symmetric group)",
                    rescaling="any second weight assignment with the same strict order type (covers every strictly increasing transform)")
    v.assumptions = ["tie-free: all training-training and training-query distances pairwise distinct and positive",
                     "0 <= W < FLOAT_MAX symmetric"]
    v.outside = ["n > 5", "ties introduced by floating-point rounding of a monotone transform"]
    v.stubs = ["numpy -> symx.symnp", "numba.njit -> identity", "logging -> null logger"]
