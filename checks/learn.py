"""C17 -- learning conserves samples and keeps the best model; pruning only discards."""
from __future__ import annotations

import itertools

import z3

from symx import core, symnp, symmath
from symx.core import to_real, to_int, rv
from . import common, models
from .models import NIL, zmax


def _site(ex, tw):
    """innermost repository frame of the traceback, as file:function"""
    import traceback
    site = "?"
    for fr in traceback.extract_tb(ex.__traceback__):
        if fr.filename.startswith(tw.root):
            site = "%s#%s" % (fr.filename[len(tw.root) + 1:], fr.name)
    return site


def snapshot(g):
    return dict(cost=[nd.cost for nd in g.nodes], pred=[nd.pred for nd in g.nodes],
                plabel=[nd.predicted_label for nd in g.nodes], status=[nd.status for nd in g.nodes],
                tags=[nd.features.flat()[0] for nd in g.nodes], label=[nd.label for nd in g.nodes],
                order=list(g.idx_nodes))


def same_snapshot(a, b):
    conj = [len(a["cost"]) == len(b["cost"])]
    if not conj[0]:
        return [False]
    for k in ("pred", "status", "tags", "order", "label", "plabel"):
        conj.append(list(a[k]) == list(b[k]))
    for x, y in zip(a["cost"], b["cost"]):
        conj.append(core.sym_eq(x, y))
    return conj


def make_harness(cfg, tw):
    kind = cfg["kind"]
    ntr, nv = cfg["ntr"], cfg["nv"]
    ltr, lv = cfg["ltr"], cfg["lv"]
    N = ntr + nv
    sup = tw.mod("opfython.models.supervised")
    gmod = tw.mod("opfython.math.general")

    def harness():
        eng = core.engine()
        symnp.random.reset()
        W = models.sym_matrix(eng, N, N, symmetric=True, diag="zero", name="w")
        if cfg.get("fixed_train"):
            # narrower claim, far fewer paths: one concrete training geometry (points on a line), every placement of
            # the validation samples and every random draw still symbolic
            pos = cfg["fixed_train"]
            eng.assume(z3.And([to_real(W[i][j]) == rv(float(abs(pos[i] - pos[j]))) for i in range(ntr) for j in range(i + 1, ntr)]))
        opf = sup.SupervisedOPF()
        opf.distance_fn = models.table_metric(W)
        Xt = symnp.SArr.from_list([[float(i)] for i in range(ntr)], tag="caller:Xt")
        Yt = symnp.SArr.from_list(list(ltr), dtype="i", tag="caller:Yt")
        Xv = symnp.SArr.from_list([[float(ntr + i)] for i in range(nv)], tag="caller:Xv")
        Yv = symnp.SArr.from_list(list(lv), dtype="i", tag="caller:Yv")
        out = dict(W=W, opf=opf)
        if kind == "learn":
            draws = []

            def provider(k, args):
                if k != "uniform":
                    raise core.Unsupported("unexpected RNG call %s" % k)
                low, high, size, st = args
                u = eng.real("u%d" % len(draws))
                eng.assume(z3.And(u.e >= low, u.e < high))
                draws.append(u)
                return [u] if size is not None else u
            symnp.random.provider = provider
            iters = []
            real_acc = gmod.opf_accuracy

            # the accuracy an iteration "achieved" is judged independently of the arguments the code passes to the
            # criterion: true labels of the samples it just predicted (rows are identified by their tag) against
            # the predictions it just made
            alllabs = list(ltr) + list(lv)
            last = {}
            orig_predict = opf.predict

            def predict_spy(X, *a, **k):
                p = orig_predict(X, *a, **k)
                last["X"], last["p"] = X, p
                return p
            opf.predict = predict_spy

            def acc_spy(a1, a2):
                a = real_acc(a1, a2)
                true = a
                X = last.get("X")
                if isinstance(X, symnp.SArr) and X.ndim == 2:
                    tags = [X._get((i, 0)) for i in range(X.shape[0])]
                    if all(isinstance(t, (int, float)) and not core.is_sym(t) for t in tags):
                        labs = symnp.SArr.from_list([alllabs[int(t)] for t in tags], dtype="i")
                        true = real_acc(labs, last["p"])
                iters.append((true, snapshot(opf.subgraph)))
                return a
            sup.g.opf_accuracy = acc_spy
            err = None
            try:
                opf.learn(Xt, Yt, Xv, Yv, n_iterations=cfg["iters"])
            except core.Unsupported:
                raise
            except Exception as ex:
                err = "%s@%s: %s" % (type(ex).__name__, _site(ex, tw), str(ex)[:160])
            finally:
                sup.g.opf_accuracy = real_acc
                opf.__dict__.pop("predict", None)
            out.update(err=err, iters=iters, draws=draws, Xt=Xt, Yt=Yt, Xv=Xv, Yv=Yv)
        elif kind == "relevance":
            opf.fit(Xt, Yt)
            out["snap"] = snapshot(opf.subgraph)
            out["preds"] = opf.predict(Xv)
            out["relevant"] = [nd.relevant for nd in opf.subgraph.nodes]
        else:  # prune
            opf.fit(Xt, Yt)
            opf.predict(Xv)
            out["relevant_first"] = [nd.relevant for nd in opf.subgraph.nodes]
            opf2 = sup.SupervisedOPF()
            opf2.distance_fn = models.table_metric(W)
            err = None
            try:
                opf2.prune(Xt, Yt, Xv, Yv, n_iterations=cfg["iters"])
            except core.Unsupported:
                raise
            except Exception as ex:
                err = "%s: %s" % (type(ex).__name__, str(ex)[:160])
            out.update(err=err, opf2=opf2, Xt=Xt, Yt=Yt)
        return out
    return harness


def payload(eng, m, cfg, out):
    Wf = models.floats_of(models.eval_matrix(eng, m, out["W"]))
    if Wf is None:
        Wf = [[common.fraction_to_float(x) for x in r] for r in models.eval_matrix(eng, m, out["W"])]
    p = dict(kind="learn", cfg=cfg, W=Wf)
    if "draws" in out:
        p["draws"] = [common.fraction_to_float(eng.eval_model(m, u)) for u in out["draws"]]
    return p


def obligations(eng, cfg, out, info):
    kind = cfg["kind"]
    ntr, nv = cfg["ntr"], cfg["nv"]
    ltr, lv = cfg["ltr"], cfg["lv"]
    if kind == "learn":
        if out["err"] is not None:
            eng.check("learn-does-not-raise:" + out["err"].split(":")[0], False, info)
            return
        eng.check("learn-does-not-raise", True, info)
        Xt, Yt, Xv, Yv = out["Xt"], out["Yt"], out["Xv"], out["Yv"]
        eng.check("sizes-unchanged", Xt.shape == (ntr, 1) and Xv.shape == (nv, 1) and Yt.shape == (ntr,) and Yv.shape == (nv,), info)
        before = sorted([(float(i), ltr[i]) for i in range(ntr)] + [(float(ntr + i), lv[i]) for i in range(nv)])
        after = sorted([(Xt._get((i, 0)), Yt._get((i,))) for i in range(ntr)] + [(Xv._get((i, 0)), Yv._get((i,))) for i in range(nv)])
        eng.check("multiset-of-(features,label)-pairs-conserved", before == after, info)
        iters = out["iters"]
        eng.check("at-least-one-iteration", len(iters) >= 1, info)
        if iters:
            accs = [a for a, _ in iters]
            best = 0
            for k in range(1, len(accs)):
                if bool(accs[k] > accs[best]):
                    best = k
            conj = same_snapshot(snapshot(out["opf"].subgraph), iters[best][1])
            eng.check("object-holds-the-best-iteration's-classifier",
                      z3.And([core.to_bool(c) if not isinstance(c, bool) else z3.BoolVal(c) for c in conj]), info)
    elif kind == "relevance":
        snap = out["snap"]
        n = len(snap["cost"])
        W = out["W"]
        cost = [to_real(c) for c in snap["cost"]]
        rel = out["relevant"]
        relset = [t for t in range(n) if rel[t] == 1]
        # per query: the set of admissible conquerors = exhaustive minimisers whose label was returned
        per_query = []
        for qi, p in enumerate(out["preds"]):
            q = [to_real(W[t][ntr + qi]) for t in range(n)]
            val = [zmax(cost[t], q[t]) for t in range(n)]
            alts = []
            for t in range(n):
                ch = models.chain(snap["pred"], t, n)
                alts.append((t, z3.And([val[t] <= val[s] for s in range(n) if s != t] + [z3.BoolVal(snap["plabel"][t] == p)]), ch))
            per_query.append(alts)
        combos = []
        for choice in itertools.product(*[range(n)] * len(per_query)):
            want = set()
            conds = []
            ok = True
            for qi, t in enumerate(choice):
                _, cond, ch = per_query[qi][t]
                if ch is None:
                    ok = False
                    break
                want.update(ch)
                conds.append(cond)
            if ok and sorted(want) == relset:
                combos.append(z3.And(conds))
        eng.check("relevant-flags-are-exactly-the-conquerors'-paths", z3.Or(combos) if combos else z3.BoolVal(False), info)
    else:
        if out["err"] is not None:
            # outside the claim: prune can only fail because the retained set no longer has two classes
            return
        g = out["opf2"].subgraph
        final = sorted((nd.features.flat()[0], nd.label) for nd in g.nodes)
        orig = [(float(i), ltr[i]) for i in range(ntr)]
        sub = True
        pool = list(orig)
        for r in final:
            if r in pool:
                pool.remove(r)
            else:
                sub = False
        eng.check("final-training-set-is-a-sub-multiset-with-labels-intact", sub, info)
        if cfg["iters"] == 1:
            want = sorted((float(i), ltr[i]) for i in range(ntr) if out["relevant_first"][i] == 1)
            eng.check("pruning-keeps-exactly-the-relevant-samples", final == want, info)
        writes = [w for w in symnp.WRITE_LOG if w[0] and str(w[0]).startswith("caller")]
        eng.check("prune-does-not-write-caller-arrays", len(writes) == 0, info)


def run_config(cfg):
    common.bootstrap()
    tw = common.get_twin()
    harness = make_harness(cfg, tw)

    def h2():
        del symnp.WRITE_LOG[:]
        return harness()

    def on_leaf(eng, out):
        obligations(eng, cfg, out, lambda m: payload(eng, m, cfg, out))
    def witness(eng, m, out):
        if cfg["kind"] != "relevance":
            return None
        p = payload(eng, m, cfg, out)
        p["expected"] = dict(relevant=list(out["relevant"]), preds=[int(x) for x in out["preds"]])
        return p
    return common.explore(cfg, h2, twin=tw, on_leaf=on_leaf, witness_fn=witness, witness_stride=cfg.get("wstride", 3),
                          deadline_s=cfg.get("deadline_s", 900),
                          seed=cfg.get("seed", 0), solver_timeout_ms=cfg.get("timeout_ms", 30000))
