"""Helpers shared by the model-level harnesses (C01-C04, C09-C11, C13-C15)."""
from __future__ import annotations

import itertools
import sys
from fractions import Fraction

import z3

from symx import core, symnp
from symx.core import SymReal, SymInt, to_real, to_int, wrap, rv

FLOAT_MAX = sys.float_info.max
PROTOTYPE = 1
NIL = -1


def fmax():
    return rv(FLOAT_MAX)


def sym_matrix(eng, n, m=None, symmetric=True, diag="free", name="w", distinct=False, positive=False):
    """n x m matrix of symbolic reals in [0, FLOAT_MAX).  diag: free | zero"""
    m = m or n

    def build():
        W = [[None] * m for _ in range(n)]
        cons = []
        offdiag = []
        vars_ = []
        for i in range(n):
            for j in range(m):
                if symmetric and j < i and j < n and i < m:
                    W[i][j] = W[j][i]
                    continue
                if i == j and diag == "zero":
                    W[i][j] = 0.0
                    continue
                v = z3.Real("%s_%d_%d" % (name, i, j))
                vars_.append(v)
                W[i][j] = SymReal(v)
                cons.append(z3.And(v >= 0, v < fmax()))
                if i != j:
                    offdiag.append(v)
                    if positive:
                        cons.append(v > 0)
        if distinct and len(offdiag) > 1:
            cons.append(z3.Distinct(offdiag))
        return W, (z3.And(cons) if cons else None), vars_
    W, c, vars_ = eng.memo(("sym_matrix", n, m, symmetric, diag, name, distinct, positive), build)
    eng.track_vars.extend(vars_)
    if c is not None:
        eng.assume(c)
    return [list(r) for r in W]


def sym_vector(eng, n, name="q", lo=0):
    v = [eng.real("%s_%d" % (name, i)) for i in range(n)]
    eng.assume(z3.And([z3.And(x.e >= lo, x.e < fmax()) for x in v]))
    return v


def sym_labels(eng, n, K, name="l", two_classes=True):
    ls = [eng.int("%s_%d" % (name, i), 0, K - 1) for i in range(n)]
    if two_classes and n > 1:
        eng.assume(z3.Or([ls[i].e != ls[0].e for i in range(1, n)]))
    return ls


def tag_features(n, offset=0):
    """features that only carry the sample's identity (one column: its tag)"""
    return symnp.SArr.from_list([[float(offset + i)] for i in range(n)])


def table_metric(W):
    def d(a, b):
        return W[int(a[0])][int(b[0])]
    return d


def build_opf(cls, branch, W, **kw):
    """instantiate a twin model reading its arc weights from W through `branch`."""
    opf = cls(**kw)
    if branch == "pre":
        opf.pre_computed_distance = True
        opf.pre_distances = symnp.SArr.from_list(W)
    else:
        opf.distance_fn = table_metric(W)
    return opf


def data_for(branch, n, labels=None, offset=0, idx=None):
    """-> X, Y, I for n samples whose identity (row of W) is offset+i (or idx[i])."""
    ids = idx if idx is not None else [offset + i for i in range(n)]
    if branch == "pre":
        X = symnp.zeros((n, 1))
        I = symnp.SArr.from_list(list(ids), dtype="i")
    else:
        X = symnp.SArr.from_list([[float(t)] for t in ids])
        I = None
    Y = symnp.SArr.from_list(list(labels), dtype="i") if labels is not None else None
    return X, Y, I


# ---------------------------------------------------------------------------
# oracles

def zmax(a, b):
    return z3.If(a >= b, a, b)


def zmin(a, b):
    return z3.If(a <= b, a, b)


def zmax_list(xs):
    acc = xs[0]
    for x in xs[1:]:
        acc = zmax(acc, x)
    return acc


def zmin_list(xs):
    acc = xs[0]
    for x in xs[1:]:
        acc = zmin(acc, x)
    return acc


def minimax_term(Wz, sources, target, n):
    """explicit min over all simple paths from any source to target of the max arc (0 if target is a source)."""
    if target in sources:
        return z3.RealVal(0)
    terms = []
    others = [v for v in range(n) if v != target]
    for s in sources:
        mids = [v for v in others if v != s]
        for k in range(len(mids) + 1):
            for seq in itertools.permutations(mids, k):
                path = [s] + list(seq) + [target]
                arcs = [Wz[path[a]][path[a + 1]] for a in range(len(path) - 1)]
                terms.append(zmax_list(arcs))
    return zmin_list(terms)


def chain(pred, i, n):
    """follow concrete predecessor links; returns (list of nodes from i to root) or None on a cycle"""
    seen = [i]
    while pred[seen[-1]] != NIL:
        nxt = pred[seen[-1]]
        if nxt in seen or not (0 <= nxt < n) or len(seen) > n:
            return None
        seen.append(nxt)
    return seen


def order_preserved(fr_values):
    """do python floats of these Fractions have the same order type?"""
    fl = [f.numerator / f.denominator if isinstance(f, Fraction) else float(f) for f in fr_values]
    for a in range(len(fl)):
        for b in range(a + 1, len(fl)):
            x, y = fr_values[a], fr_values[b]
            if (x < y) != (fl[a] < fl[b]) or (x == y) != (fl[a] == fl[b]):
                return None
    return fl


def eval_matrix(eng, m, W):
    return [[eng.eval_model(m, v) for v in row] for row in W]


def floats_of(vals):
    """Fractions/ints (nested) -> floats, or None if the order type among *all* of them is not preserved"""
    flat = []

    def walk(x):
        if isinstance(x, list):
            for y in x:
                walk(y)
        else:
            flat.append(Fraction(x) if not isinstance(x, Fraction) else x)
    walk(vals)
    flat.append(Fraction(0))
    flat.append(Fraction(repr(FLOAT_MAX)))
    fl = order_preserved(flat)
    if fl is None:
        return None
    fl = fl[:-2]
    it = iter(fl)

    def rebuild(x):
        if isinstance(x, list):
            return [rebuild(y) for y in x]
        return next(it)
    return rebuild(vals)
