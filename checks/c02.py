"""C02 -- prototypes are exactly the class-boundary endpoints of a minimum spanning tree."""
from . import sup

RUN = ("checks.sup", "run_config")


def configs(tier, seed):
    cfgs = []
    if tier == "quick":
        sizes = [(2, 2), (3, 3), (4, 3)]
    else:
        sizes = [(2, 2), (3, 3), (4, 4), (5, 2)]
    for n, K in sizes:
        for part in sup.partitions(n, 2, K):
            for branch in ("pre", "fn"):
                if n >= 5 and branch == "fn":
                    continue
                w = 7 if n <= 3 else (31 if n == 4 else 1501)
                # (a) right after the MST pass, any tie pattern
                cfgs.append(dict(n=n, K=K, part=list(part), branch=branch, only_protos=True, weight=10 ** n, wstride=w))
                # (b) same with pairwise distinct weights: unique MST (Kruskal characterisation)
                cfgs.append(dict(n=n, K=K, part=list(part), branch=branch, only_protos=True, distinct=True,
                                 weight=10 ** n, wstride=w))
                # (c) after the full fit: prototypes keep cost 0 / NIL / own label
                if n <= 4:
                    cfgs.append(dict(n=n, K=K, part=list(part), branch=branch, weight=10 ** n, wstride=w * 3))
    return cfgs


def describe(v, tier):
    v.bounds = dict(n_training_samples="2..4 (quick) / 2..5 (thorough)", classes="<=3 (quick) / <=4 (thorough; n=5: <=3)",
                    label_patterns="every set partition with >= 2 blocks, label values symbolic",
                    tie_patterns="all (weights unconstrained) and the all-distinct case separately",
                    weight_branches=["pre_computed_distance matrix", "distance_fn callable"])
    v.assumptions = ["0 <= W[i][j] < sys.float_info.max, W symmetric",
                     "MST oracle = cycle property on the recorded predecessor tree; uniqueness oracle = Kruskal "
                     "characterisation (an arc is in the MST iff no path of strictly lighter arcs joins its ends)"]
    v.outside = ["n > 5", "weights >= FLOAT_MAX, NaN, inf", "asymmetric weights"]
    v.stubs = ["numpy -> symx.symnp", "numba.njit -> identity", "logging -> null logger"]
