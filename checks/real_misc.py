"""real-package handlers: evaluation measures (C20) and other small units."""
import math
import numpy as np


def _l(x):
    if isinstance(x, np.ndarray):
        return [float(v) for v in x.flatten()]
    return float(x)


def run_measure(req):
    import opfython.math.general as g
    cfg = req["cfg"]
    fn = cfg["fn"]
    bad = []
    if fn == "normalize":
        M = np.array(req["M"], dtype=float)
        res = g.normalize(M.copy())
        L = M.shape[0]
        for j in range(M.shape[1]):
            col = [float(v) for v in M[:, j]]
            mean = math.fsum(col) / L
            std = math.sqrt(math.fsum((v - mean) ** 2 for v in col) / L)
            for i in range(L):
                want = (col[i] - mean) / std
                if not math.isclose(float(res[i][j]), want, rel_tol=1e-9, abs_tol=1e-12):
                    bad.append("normalize-value[%d,%d]" % (i, j))
        return dict(obs=dict(res=_l(res)), violated=bad)
    labels, preds = req["labels"], req["preds"]
    L, K = len(labels), cfg["K"]
    la = list(labels) if cfg.get("as_list") else np.array(labels, dtype=int)
    pa = list(preds) if cfg.get("as_list") else np.array(preds, dtype=int)
    res = getattr(g, fn)(la, pa)
    n = [sum(1 for l in labels if l == c) for c in range(K)]
    if fn == "opf_accuracy":
        acc = float(res)
        if K >= 2:
            tot = 0.0
            for c in range(K):
                fp = sum(1 for l, p in zip(labels, preds) if p == c and l != c)
                fn_ = sum(1 for l, p in zip(labels, preds) if l == c and p != c)
                tot += fp / (L - n[c]) + fn_ / n[c]
            if not math.isclose(acc, 1 - tot / (2 * K), rel_tol=1e-12, abs_tol=1e-12):
                bad.append("accuracy-definition")
        if not (-1e-12 <= acc <= 1 + 1e-12) or math.isnan(acc):
            bad.append("accuracy-in-unit-interval")
        if (abs(acc - 1) < 1e-12) != (list(labels) == list(preds)):
            bad.append("accuracy-one-iff-all-correct")
    elif fn == "confusion_matrix":
        for a in range(K):
            for b in range(K):
                if res[a][b] != sum(1 for l, p in zip(labels, preds) if l == a and p == b):
                    bad.append("confusion-entry[%d,%d]" % (a, b))
        if res.sum() != L:
            bad.append("confusion-total")
    elif fn == "opf_accuracy_per_label":
        for c in range(K):
            tp = sum(1 for l, p in zip(labels, preds) if l == c and p == c)
            if not math.isclose(float(res[c]), tp / n[c], rel_tol=1e-12, abs_tol=1e-12):
                bad.append("per-label-is-recall[%d]" % c)
    elif fn == "purity":
        pur = float(res)
        tot = 0
        for b in range(K):
            tot += max(sum(1 for l, p in zip(labels, preds) if l == a and p == b) for a in range(K))
        if not math.isclose(pur, tot / L, rel_tol=1e-12):
            bad.append("purity-definition")
        pure = all(labels[i] == labels[j] for i in range(L) for j in range(L) if preds[i] == preds[j])
        if (abs(pur - 1) < 1e-12) != pure:
            bad.append("purity-one-iff-groups-pure")
        if not (0 < pur <= 1 + 1e-12):
            bad.append("purity-range")
    return dict(obs=dict(res=_l(res)), violated=bad)


HANDLERS = {"measure": run_measure}


def run_precomp(req):
    """same pipeline on the real package with a table metric registered under the stub name"""
    import os
    import tempfile
    import opfython.math.distance as d
    import opfython.math.general as g
    from opfython.models.supervised import SupervisedOPF
    from opfython.models.semi_supervised import SemiSupervisedOPF
    from opfython.models.unsupervised import UnsupervisedOPF
    cfg = req["cfg"]
    model, m, ntr, nte, ext = cfg["model"], cfg["m"], cfg["ntr"], cfg["nte"], cfg["ext"]
    D = req["D"]
    if D is None:
        # the symbolic run raised before any weight mattered: any matrix will do
        D = [[float(abs(i - j)) + 0.5 * (i > j) for j in range(m)] for i in range(m)]
    tr = req["tr"] or list(range(ntr))
    te = req["te"] or [r for r in range(m) if r not in tr][:nte]
    Dl = [list(map(float, r)) for r in D]
    saved = d.DISTANCES["euclidean"]
    d.DISTANCES["euclidean"] = lambda a, b: Dl[int(a[0])][int(b[0])]
    bad = []
    obs = {}
    try:
        with tempfile.TemporaryDirectory() as td:
            fname = os.path.join(td, "distances." + ext)
            data = np.array([[float(i)] for i in range(m)])
            g.pre_compute_distance(data, fname, "euclidean")
            labels = cfg.get("labels") or [i % 2 for i in range(ntr)]
            X = np.array([[float(r)] for r in tr])
            Y = np.array(labels, dtype=int)
            I = np.array(tr, dtype=int)
            Xq = np.array([[float(r)] for r in te])
            Iq = np.array(te, dtype=int)
            res = {}
            for tag in ("pre", "fly"):
                kw = dict(distance="euclidean")
                if tag == "pre":
                    kw["pre_computed_distance"] = fname
                try:
                    if model == "sup":
                        o = SupervisedOPF(**kw)
                        o.fit(X, Y, I)
                        p = o.predict(Xq, Iq)
                    elif model == "semi":
                        o = SemiSupervisedOPF(**kw)
                        Xu = np.array([[float(ntr + i)] for i in range(cfg["nu"])])
                        o.fit(X, Y, Xu, I)
                        p = o.predict(Xq, Iq)
                    else:
                        o = UnsupervisedOPF(min_k=1, max_k=cfg.get("k", 1), **kw)
                        o.fit(X, Y, I)
                        p = o.predict(Xq, Iq) if nte else []
                except Exception as ex:
                    bad.append("pipeline-does-not-raise")
                    obs["error_" + tag] = "%s: %s" % (type(ex).__name__, str(ex)[:200])
                    continue
                gph = o.subgraph
                flat = [list(map(int, t)) for t in p] if isinstance(p, tuple) else [int(t) for t in p]
                res[tag] = dict(cost=[float(nd.cost) for nd in gph.nodes], pred=[int(nd.pred) for nd in gph.nodes],
                                plabel=[int(nd.predicted_label) for nd in gph.nodes], status=[int(nd.status) for nd in gph.nodes],
                                cluster=[int(nd.cluster_label) for nd in gph.nodes], order=[int(x) for x in gph.idx_nodes], preds=flat)
                if tag == "fly":
                    gd = o.get_distances()
                    rows = [int(nd.features[0]) for nd in gph.nodes]
                    for i in range(len(rows)):
                        for j in range(len(rows)):
                            if gd[i][j] != Dl[rows[i]][rows[j]]:
                                bad.append("gd-entry[%d,%d]" % (i, j))
            if "pre" in res and "fly" in res:
                for k in res["pre"]:
                    if res["pre"][k] != res["fly"][k]:
                        bad.append("same-%s" % k)
                obs.update(res["pre"])
    finally:
        d.DISTANCES["euclidean"] = saved
    return dict(obs=obs, violated=bad)


HANDLERS["precomp"] = run_precomp
