"""real-package handlers: evaluation measures (C20) and other small units."""
import math
import numpy as np


def _l(x):
    if isinstance(x, np.ndarray):
        return [float(v) for v in x.flatten()]
    return float(x)


def run_measure(req):
    import opfython.math.general as g
    cfg = req["cfg"]
    fn = cfg["fn"]
    bad = []
    if fn == "normalize":
        M = np.array(req["M"], dtype=float)
        res = g.normalize(M.copy())
        L = M.shape[0]
        for j in range(M.shape[1]):
            col = [float(v) for v in M[:, j]]
            mean = math.fsum(col) / L
            std = math.sqrt(math.fsum((v - mean) ** 2 for v in col) / L)
            for i in range(L):
                want = (col[i] - mean) / std
                if not math.isclose(float(res[i][j]), want, rel_tol=1e-9, abs_tol=1e-12):
                    bad.append("normalize-value[%d,%d]" % (i, j))
        return dict(obs=dict(res=_l(res)), violated=bad)
    labels, preds = req["labels"], req["preds"]
    L, K = len(labels), cfg["K"]
    la = list(labels) if cfg.get("as_list") else np.array(labels, dtype=int)
    pa = list(preds) if cfg.get("as_list") else np.array(preds, dtype=int)
    res = getattr(g, fn)(la, pa)
    n = [sum(1 for l in labels if l == c) for c in range(K)]
    if fn == "opf_accuracy":
        acc = float(res)
        if K >= 2:
            tot = 0.0
            for c in range(K):
                fp = sum(1 for l, p in zip(labels, preds) if p == c and l != c)
                fn_ = sum(1 for l, p in zip(labels, preds) if l == c and p != c)
                tot += fp / (L - n[c]) + fn_ / n[c]
            if not math.isclose(acc, 1 - tot / (2 * K), rel_tol=1e-12, abs_tol=1e-12):
                bad.append("accuracy-definition")
        if not (-1e-12 <= acc <= 1 + 1e-12) or math.isnan(acc):
            bad.append("accuracy-in-unit-interval")
        if (abs(acc - 1) < 1e-12) != (list(labels) == list(preds)):
            bad.append("accuracy-one-iff-all-correct")
    elif fn == "confusion_matrix":
        for a in range(K):
            for b in range(K):
                if res[a][b] != sum(1 for l, p in zip(labels, preds) if l == a and p == b):
                    bad.append("confusion-entry[%d,%d]" % (a, b))
        if res.sum() != L:
            bad.append("confusion-total")
    elif fn == "opf_accuracy_per_label":
        for c in range(K):
            tp = sum(1 for l, p in zip(labels, preds) if l == c and p == c)
            if not math.isclose(float(res[c]), tp / n[c], rel_tol=1e-12, abs_tol=1e-12):
                bad.append("per-label-is-recall[%d]" % c)
    elif fn == "purity":
        pur = float(res)
        tot = 0
        for b in range(K):
            tot += max(sum(1 for l, p in zip(labels, preds) if l == a and p == b) for a in range(K))
        if not math.isclose(pur, tot / L, rel_tol=1e-12):
            bad.append("purity-definition")
        pure = all(labels[i] == labels[j] for i in range(L) for j in range(L) if preds[i] == preds[j])
        if (abs(pur - 1) < 1e-12) != pure:
            bad.append("purity-one-iff-groups-pure")
        if not (0 < pur <= 1 + 1e-12):
            bad.append("purity-range")
    return dict(obs=dict(res=_l(res)), violated=bad)


HANDLERS = {"measure": run_measure}


def run_precomp(req):
    """same pipeline on the real package with a table metric registered under the stub name"""
    import os
    import tempfile
    import opfython.math.distance as d
    import opfython.math.general as g
    from opfython.models.supervised import SupervisedOPF
    from opfython.models.semi_supervised import SemiSupervisedOPF
    from opfython.models.unsupervised import UnsupervisedOPF
    cfg = req["cfg"]
    model, m, ntr, nte, ext = cfg["model"], cfg["m"], cfg["ntr"], cfg["nte"], cfg["ext"]
    D = req["D"]
    if D is None:
        # the symbolic run raised before any weight mattered: any matrix will do
        D = [[float(abs(i - j)) + 0.5 * (i > j) for j in range(m)] for i in range(m)]
    tr = req["tr"] or list(range(ntr))
    te = req["te"] or [r for r in range(m) if r not in tr][:nte]
    Dl = [list(map(float, r)) for r in D]
    saved = d.DISTANCES["euclidean"]
    d.DISTANCES["euclidean"] = lambda a, b: Dl[int(a[0])][int(b[0])]
    bad = []
    obs = {}
    try:
        with tempfile.TemporaryDirectory() as td:
            fname = os.path.join(td, "distances." + ext)
            data = np.array([[float(i)] for i in range(m)])
            g.pre_compute_distance(data, fname, "euclidean")
            labels = cfg.get("labels") or [i % 2 for i in range(ntr)]
            X = np.array([[float(r)] for r in tr])
            Y = np.array(labels, dtype=int)
            I = np.array(tr, dtype=int)
            Xq = np.array([[float(r)] for r in te])
            Iq = np.array(te, dtype=int)
            res = {}
            for tag in ("pre", "fly"):
                kw = dict(distance="euclidean")
                if tag == "pre":
                    kw["pre_computed_distance"] = fname
                try:
                    if model == "sup":
                        o = SupervisedOPF(**kw)
                        o.fit(X, Y, I)
                        p = o.predict(Xq, Iq) if nte else []
                    elif model == "semi":
                        o = SemiSupervisedOPF(**kw)
                        Xu = np.array([[float(ntr + i)] for i in range(cfg["nu"])])
                        o.fit(X, Y, Xu, I)
                        p = o.predict(Xq, Iq) if nte else []
                    else:
                        o = UnsupervisedOPF(min_k=1, max_k=cfg.get("k", 1), **kw)
                        o.fit(X, Y, I)
                        p = o.predict(Xq, Iq) if nte else []
                except Exception as ex:
                    bad.append("pipeline-does-not-raise")
                    obs["error_" + tag] = "%s: %s" % (type(ex).__name__, str(ex)[:200])
                    continue
                gph = o.subgraph
                flat = [list(map(int, t)) for t in p] if isinstance(p, tuple) else [int(t) for t in p]
                res[tag] = dict(cost=[float(nd.cost) for nd in gph.nodes], pred=[int(nd.pred) for nd in gph.nodes],
                                plabel=[int(nd.predicted_label) for nd in gph.nodes], status=[int(nd.status) for nd in gph.nodes],
                                cluster=[int(nd.cluster_label) for nd in gph.nodes], order=[int(x) for x in gph.idx_nodes], preds=flat)
                if tag == "fly":
                    gd = o.get_distances()
                    rows = [int(nd.features[0]) for nd in gph.nodes]
                    for i in range(len(rows)):
                        for j in range(len(rows)):
                            if gd[i][j] != Dl[rows[i]][rows[j]]:
                                bad.append("gd-entry[%d,%d]" % (i, j))
                    if cfg.get("normalize"):
                        gn = o.get_distances(normalize=True)
                        ent = [Dl[a][b] for a in rows for b in rows]
                        mn, mx = min(ent), max(ent)
                        if mx > mn:
                            for i in range(len(rows)):
                                for j in range(len(rows)):
                                    want = (Dl[rows[i]][rows[j]] - mn) / (mx - mn)
                                    if not math.isclose(float(gn[i][j]), want, rel_tol=1e-9, abs_tol=1e-12):
                                        bad.append("normalised-entry[%d,%d]" % (i, j))
            if "pre" in res and "fly" in res:
                for k in res["pre"]:
                    if res["pre"][k] != res["fly"][k]:
                        bad.append("same-%s" % k)
                obs.update(res["pre"])
    finally:
        d.DISTANCES["euclidean"] = saved
    return dict(obs=obs, violated=bad)


HANDLERS["precomp"] = run_precomp


def run_stream_split(req):
    import itertools
    from opfython.stream import splitter as sp
    cfg = req["cfg"]
    X = np.array(req["X"], dtype=float)
    Y = np.array(req["Y"], dtype=int)
    p, seed = float(req["p"]), int(req["seed"])
    n = len(Y)
    fn = sp.split_with_index if cfg.get("with_index") else sp.split
    bx, by = X.tobytes(), Y.tobytes()
    r1 = fn(X, Y, p, seed)
    np.random.seed(seed + 1)
    np.random.permutation(n)
    r2 = fn(X, Y, p, seed)
    bad = []
    rows_in = sorted((tuple(X[i]), int(Y[i])) for i in range(n))
    rows_out = sorted([(tuple(r1[0][i]), int(r1[2][i])) for i in range(len(r1[2]))] +
                      [(tuple(r1[1][i]), int(r1[3][i])) for i in range(len(r1[3]))])
    if rows_in != rows_out:
        bad.append("every-sample-in-exactly-one-set-with-its-label")
    if cfg.get("with_index"):
        idx = list(r1[4]) + list(r1[5])
        if sorted(idx) != list(range(n)) or any(tuple(X[i]) != tuple(xr) or int(Y[i]) != int(yr) for i, xr, yr in
                                                zip(idx, list(r1[0]) + list(r1[1]), list(r1[2]) + list(r1[3]))):
            bad.append("every-sample-in-exactly-one-set-with-its-label")
    import math
    if len(r1[2]) != math.floor(n * p + 0.0) and len(r1[2]) != int(n * p):
        bad.append("first-set-has-floor(n*p)-samples")
    if any(a.tobytes() != b.tobytes() for a, b in zip(r1, r2)):
        bad.append("same-seed-same-split")
    Xm, Ym = sp.merge(r1[0], r1[1], r1[2], r1[3])
    if sorted((tuple(Xm[i]), int(Ym[i])) for i in range(len(Ym))) != rows_in:
        bad.append("merge-gives-back-the-samples")
    if X.tobytes() != bx or Y.tobytes() != by:
        bad.append("split-does-not-write-caller-arrays")
    return dict(obs=dict(sizes=[len(r1[2]), len(r1[3])]), violated=bad)


def run_stream_convert(req):
    import os
    import struct
    import tempfile
    from opfython.utils import converter as conv
    from opfython.stream import loader, parser
    from opfython.core.subgraph import Subgraph
    import opfython.utils.exception as exc
    cfg = req["cfg"]
    n, f, K = cfg["n"], cfg["f"], cfg.get("K", 2)
    if req.get("generic"):
        # the symbolic run raised before any value mattered: replay on a generic valid data set
        req = dict(req, ids=list(range(n)), labs=[1 + (i % K) for i in range(n)],
                   feats=[[0.5 * (i + 1) + 0.25 * j for j in range(f)] for i in range(n)])
    ids = [int(v) for v in req["ids"]]
    labs = [int(v) for v in req["labs"]]
    feats32 = [[float(np.float32(v)) for v in r] for r in req["feats"]]
    bad = []
    with tempfile.TemporaryDirectory() as td:
        path = os.path.join(td, "data.dat")
        with open(path, "wb") as fh:
            fh.write(struct.pack("<iii", n, K, f))
            for i in range(n):
                fh.write(struct.pack("<ii" + "f" * f, ids[i], labs[i], *feats32[i]))
        cwd = os.getcwd()
        os.chdir(td)
        try:
            conv.opf2txt("data.dat")
            conv.opf2csv("data.dat", "other.csv")
            conv.opf2json("data.dat")
            loaded = dict(txt=loader.load_txt("data.txt"), csv=loader.load_csv("other.csv"), json=loader.load_json("data.json"))
            obs_txt = [[float(v) for v in r] for r in loaded["txt"]] if loaded["txt"] is not None else None
            accepted = []
            lab0 = [l - 1 for l in labs]
            seq = set(lab0) == set(range(max(lab0) + 1))
            for k, arr in loaded.items():
                if arr is None or arr.shape != (n, f + 2):
                    bad.append("%s-loaded-shape" % k)
                    continue
                for i in range(n):
                    if arr[i][0] != ids[i]:
                        bad.append("%s-identifier-preserved[%d]" % (k, i))
                    if arr[i][1] != lab0[i]:
                        bad.append("%s-label-shifted-to-zero-base[%d]" % (k, i))
                    for j in range(f):
                        if float(arr[i][j + 2]) != feats32[i][j]:
                            bad.append("%s-feature-is-stored-value[%d,%d]" % (k, i, j))
                try:
                    try:
                        X, Y = parser.parse_loader(arr)
                        accepted.append(k)
                    except IndexError as ex:
                        bad.append("pipeline-does-not-raise")
                        continue
                    if not seq:
                        bad.append("%s-parse-accepts-only-sequential-labels" % k)
                    elif [int(v) for v in Y] != lab0 or [[float(v) for v in r] for r in X] != feats32:
                        bad.append("%s-parsed-label" % k)
                except exc.ValueError:
                    if seq:
                        bad.append("%s-parse-rejects-only-non-sequential-labels" % k)
            if req.get("ids2") or req.get("generic"):
                ids2 = [int(v) for v in (req.get("ids2") or [i + 100 for i in range(n)])]
                f2 = [[float(np.float32(v)) for v in r] for r in (req.get("feats2") or [[v + 7.0 for v in r] for r in feats32])]
                with open(path, "wb") as fh:
                    fh.write(struct.pack("<iii", n, K, f))
                    for i in range(n):
                        fh.write(struct.pack("<ii" + "f" * f, ids2[i], labs[i], *f2[i]))
                conv.opf2txt("data.dat")
                conv.opf2csv("data.dat", "other.csv")
                conv.opf2json("data.dat")
                again = dict(txt=loader.load_txt("data.txt"), csv=loader.load_csv("other.csv"), json=loader.load_json("data.json"))
                for k, arr in again.items():
                    if arr is None or arr.shape != (n, f + 2) or [int(v) for v in arr[:, 0]] != ids2 or \
                            [[float(v) for v in r[2:]] for r in arr] != f2:
                        bad.append("%s-reload-sees-the-new-file" % k)
            for k, pth in (("txt", "data.txt"), ("csv", "other.csv"), ("json", "data.json")):
                try:
                    g = Subgraph(from_file=pth) if not (req.get("ids2") or req.get("generic")) else None
                    if g is None:
                        continue
                    if seq and ([int(nd.label) for nd in g.nodes] != lab0 or
                                [[float(v) for v in nd.features] for nd in g.nodes] != feats32):
                        bad.append("%s-from-file-builds-the-graph" % k)
                except exc.ValueError:
                    if seq:
                        bad.append("%s-from-file-builds-the-graph" % k)
                except IndexError:
                    bad.append("pipeline-does-not-raise")
        finally:
            os.chdir(cwd)
    return dict(obs=dict(txt=obs_txt, accepted=sorted(accepted)), violated=bad)


HANDLERS["stream_split"] = run_stream_split
HANDLERS["stream_convert"] = run_stream_convert


def run_persist(req):
    """save / load on the real package (real pickle of numba dispatchers): state and predictions must agree"""
    import os
    import tempfile
    from opfython.models.supervised import SupervisedOPF
    from opfython.models.semi_supervised import SemiSupervisedOPF
    from opfython.models.knn_supervised import KNNSupervisedOPF
    from opfython.models.unsupervised import UnsupervisedOPF
    import opfython.math.distance as d
    cfg = req["cfg"]
    model, branch, n = cfg["model"], cfg["branch"], cfg["n"]
    metric = cfg.get("metric", "manhattan")
    cls = dict(sup=SupervisedOPF, semi=SemiSupervisedOPF, knn=KNNSupervisedOPF, uns=UnsupervisedOPF)[model]
    kw = dict(distance=metric)
    if model == "knn":
        kw["max_k"] = 1
    if model == "uns":
        kw.update(min_k=1, max_k=1)
    opf = cls(**kw)
    N = n + 2
    if model == "knn" and branch == "pre":
        N = n
    if branch == "pre":
        W = req.get("W") or [[abs(i - j) + 0.25 * (i > j) + 0.5 for j in range(N)] for i in range(N)]
        opf.pre_computed_distance = True
        opf.pre_distances = np.array(W, dtype=float)
        feat = lambda ids: np.zeros((len(ids), 1))
        idx = lambda ids: np.array(ids, dtype=int)
    else:
        f = req.get("f") or [0.5 + 1.75 * i * i for i in range(N)]
        feat = lambda ids: np.array([[f[i]] for i in ids], dtype=float)
        idx = lambda ids: None
    tr = list(cfg.get("tr") or range(n))
    X, Y, I = feat(tr), np.array(cfg["labels"], dtype=int), idx(tr)
    if model == "sup":
        opf.fit(X, Y, I)
    elif model == "semi":
        opf.fit(X, Y, feat([n]), I)
    elif model == "knn":
        opf.fit(X, Y, X, Y, I, I)
    else:
        opf.fit(X, Y, I)

    def state(o):
        g = o.subgraph
        s = dict(nodes=[[float(nd.cost), int(nd.pred), int(nd.predicted_label), int(nd.status), int(nd.cluster_label),
                         int(nd.root), float(nd.density), int(nd.label), int(nd.idx), float(nd.radius), int(nd.n_plateaus),
                         [int(a) for a in nd.adjacency], [float(v) for v in nd.features]] for nd in g.nodes],
                 order=[int(x) for x in g.idx_nodes], trained=g.trained, distance=o.distance,
                 fn_is_registry=o.distance_fn is d.DISTANCES[o.distance], pre=o.pre_computed_distance)
        for a in ("best_k", "constant", "min_density", "max_density", "n_clusters", "density"):
            if hasattr(g, a):
                s[a] = float(getattr(g, a))
        return s
    bad = []
    with tempfile.TemporaryDirectory() as td:
        path = os.path.join(td, "model.pkl")
        s0 = state(opf)
        opf.save(path)
        if state(opf) != s0:
            bad.append("save-does-not-alter-the-original")
        other = cls(**{k: v for k, v in kw.items() if k != "distance"})
        other.load(path)
        s1 = state(other)
        if s1 != s0:
            bad.append("loaded-state-equals-saved-state")
        q = [n + 1] if N > n else [0]
        p1 = opf.predict(feat(q), idx(q))
        p2 = other.predict(feat(q), idx(q))
        flat = lambda p: [list(map(int, t)) for t in p] if isinstance(p, tuple) else [int(t) for t in p]
        if flat(p1) != flat(p2):
            bad.append("loaded-model-predicts-like-the-original")
    return dict(obs=dict(preds=flat(p1)), violated=bad)


HANDLERS["persist"] = run_persist


def run_learn(req):
    import itertools
    from opfython.models import supervised as sup
    cfg = req["cfg"]
    kind = cfg["kind"]
    ntr, nv, ltr, lv = cfg["ntr"], cfg["nv"], cfg["ltr"], cfg["lv"]
    W = [list(map(float, r)) for r in req["W"]]
    table = lambda a, b: W[int(a[0])][int(b[0])]
    Xt = np.array([[float(i)] for i in range(ntr)])
    Yt = np.array(ltr, dtype=int)
    Xv = np.array([[float(ntr + i)] for i in range(nv)])
    Yv = np.array(lv, dtype=int)
    bad = []
    obs = {}

    def snap(g):
        return dict(cost=[float(nd.cost) for nd in g.nodes], pred=[int(nd.pred) for nd in g.nodes],
                    plabel=[int(nd.predicted_label) for nd in g.nodes], status=[int(nd.status) for nd in g.nodes],
                    tags=[float(nd.features[0]) for nd in g.nodes], label=[int(nd.label) for nd in g.nodes],
                    order=[int(x) for x in g.idx_nodes])
    opf = sup.SupervisedOPF()
    opf.distance_fn = table
    if kind == "learn":
        draws = list(req.get("draws") or [])
        it = iter(draws)
        real_uniform = np.random.uniform

        def fake(low=0.0, high=1.0, size=None):
            try:
                u = next(it)
            except StopIteration:
                u = low
            return np.array([u]) if size is not None else u
        iters = []
        real_acc = sup.g.opf_accuracy

        alllabs = list(ltr) + list(lv)
        last = {}
        orig_predict = opf.predict

        def predict_spy(X, *a, **k):
            p = orig_predict(X, *a, **k)
            last["X"], last["p"] = X, p
            return p
        opf.predict = predict_spy

        def spy(a1, a2):
            a = real_acc(a1, a2)
            true = a
            if last.get("X") is not None:
                labs = np.array([alllabs[int(r[0])] for r in last["X"]], dtype=int)
                true = real_acc(labs, np.asarray(last["p"]))
            iters.append((float(true), snap(opf.subgraph)))
            return a
        np.random.uniform = fake
        sup.g.opf_accuracy = spy
        try:
            opf.learn(Xt, Yt, Xv, Yv, n_iterations=cfg["iters"])
        except Exception as ex:
            bad.append("learn-does-not-raise")
            obs["error"] = "%s: %s" % (type(ex).__name__, str(ex)[:200])
        finally:
            np.random.uniform = real_uniform
            sup.g.opf_accuracy = real_acc
            opf.__dict__.pop("predict", None)
        if not bad:
            before = sorted([(float(i), ltr[i]) for i in range(ntr)] + [(float(ntr + i), lv[i]) for i in range(nv)])
            after = sorted([(float(Xt[i][0]), int(Yt[i])) for i in range(ntr)] + [(float(Xv[i][0]), int(Yv[i])) for i in range(nv)])
            if before != after:
                bad.append("multiset-of-(features,label)-pairs-conserved")
            accs = [a for a, _ in iters]
            best = max(range(len(accs)), key=lambda k: (accs[k], -k))
            if snap(opf.subgraph) != iters[best][1]:
                bad.append("object-holds-the-best-iteration's-classifier")
            obs.update(accs=accs, after=after)
    elif kind == "relevance":
        opf.fit(Xt, Yt)
        s = snap(opf.subgraph)
        preds = [int(p) for p in opf.predict(Xv)]
        rel = [int(nd.relevant) for nd in opf.subgraph.nodes]
        n = ntr

        def chain(t):
            c = [t]
            while s["pred"][c[-1]] != -1:
                c.append(s["pred"][c[-1]])
            return c
        ok = False
        per = []
        for qi, p in enumerate(preds):
            vals = [max(s["cost"][t], W[t][ntr + qi]) for t in range(n)]
            mn = min(vals)
            per.append([t for t in range(n) if vals[t] == mn and s["plabel"][t] == p])
        for choice in itertools.product(*per):
            want = set()
            for t in choice:
                want.update(chain(t))
            if sorted(want) == [t for t in range(n) if rel[t] == 1]:
                ok = True
        if not ok:
            bad.append("relevant-flags-are-exactly-the-conquerors'-paths")
        obs.update(relevant=rel, preds=preds, admissible=per)
    else:
        opf.fit(Xt, Yt)
        opf.predict(Xv)
        rel = [int(nd.relevant) for nd in opf.subgraph.nodes]
        opf2 = sup.SupervisedOPF()
        opf2.distance_fn = table
        try:
            opf2.prune(Xt, Yt, Xv, Yv, n_iterations=cfg["iters"])
            final = sorted((float(nd.features[0]), int(nd.label)) for nd in opf2.subgraph.nodes)
            pool = [(float(i), ltr[i]) for i in range(ntr)]
            for r in final:
                if r in pool:
                    pool.remove(r)
                else:
                    bad.append("final-training-set-is-a-sub-multiset-with-labels-intact")
                    break
            if cfg["iters"] == 1 and final != sorted((float(i), ltr[i]) for i in range(ntr) if rel[i] == 1):
                bad.append("pruning-keeps-exactly-the-relevant-samples")
            obs["final"] = final
        except Exception as ex:
            obs["error"] = "%s: %s" % (type(ex).__name__, str(ex)[:200])
    return dict(obs=obs, violated=bad)


HANDLERS["learn"] = run_learn


def run_conform(req):
    from opfython.models.supervised import SupervisedOPF
    from opfython.models.unsupervised import UnsupervisedOPF
    from opfython.models.knn_supervised import KNNSupervisedOPF
    rows = req["rows"]
    cfg = req["cfg"]
    labs = sorted(set(int(r[1]) for r in rows))
    remap = {l: i for i, l in enumerate(labs)}
    X = np.array([r[2:] for r in rows[:10]], dtype=float)
    Y = np.array([remap[int(r[1])] for r in rows[:10]], dtype=int)
    Q = np.array([r[2:] for r in rows[10:]], dtype=float)
    if cfg["model"] == "sup":
        o = SupervisedOPF(distance=cfg["metric"])
        o.fit(X, Y)
        p = [int(t) for t in o.predict(Q)]
    elif cfg["model"] == "uns":
        o = UnsupervisedOPF(min_k=1, max_k=3, distance=cfg["metric"])
        o.fit(X, Y)
        pp = o.predict(Q)
        p = [[int(t) for t in pp[0]], [int(t) for t in pp[1]]]
    else:
        o = KNNSupervisedOPF(max_k=3, distance=cfg["metric"])
        o.fit(X, Y, Q, np.array([remap[int(r[1])] for r in rows[10:]], dtype=int))
        p = [int(t) for t in o.predict(Q)]
    g = o.subgraph
    return dict(obs=dict(preds=p, cost=[float(nd.cost) for nd in g.nodes], pred=[int(nd.pred) for nd in g.nodes],
                         plabel=[int(nd.predicted_label) for nd in g.nodes], order=[int(t) for t in g.idx_nodes][-10:],
                         best_k=int(getattr(g, "best_k", 0))), violated=[])


HANDLERS["conform"] = run_conform
