"""real-package handlers: evaluation measures (C20) and other small units."""
import math
import numpy as np


def _l(x):
    if isinstance(x, np.ndarray):
        return [float(v) for v in x.flatten()]
    return float(x)


def run_measure(req):
    import opfython.math.general as g
    cfg = req["cfg"]
    fn = cfg["fn"]
    bad = []
    if fn == "normalize":
        M = np.array(req["M"], dtype=float)
        res = g.normalize(M.copy())
        L = M.shape[0]
        for j in range(M.shape[1]):
            col = [float(v) for v in M[:, j]]
            mean = math.fsum(col) / L
            std = math.sqrt(math.fsum((v - mean) ** 2 for v in col) / L)
            for i in range(L):
                want = (col[i] - mean) / std
                if not math.isclose(float(res[i][j]), want, rel_tol=1e-9, abs_tol=1e-12):
                    bad.append("normalize-value[%d,%d]" % (i, j))
        return dict(obs=dict(res=_l(res)), violated=bad)
    labels, preds = req["labels"], req["preds"]
    L, K = len(labels), cfg["K"]
    la = list(labels) if cfg.get("as_list") else np.array(labels, dtype=int)
    pa = list(preds) if cfg.get("as_list") else np.array(preds, dtype=int)
    res = getattr(g, fn)(la, pa)
    n = [sum(1 for l in labels if l == c) for c in range(K)]
    if fn == "opf_accuracy":
        acc = float(res)
        if K >= 2:
            tot = 0.0
            for c in range(K):
                fp = sum(1 for l, p in zip(labels, preds) if p == c and l != c)
                fn_ = sum(1 for l, p in zip(labels, preds) if l == c and p != c)
                tot += fp / (L - n[c]) + fn_ / n[c]
            if not math.isclose(acc, 1 - tot / (2 * K), rel_tol=1e-12, abs_tol=1e-12):
                bad.append("accuracy-definition")
        if not (-1e-12 <= acc <= 1 + 1e-12) or math.isnan(acc):
            bad.append("accuracy-in-unit-interval")
        if (abs(acc - 1) < 1e-12) != (list(labels) == list(preds)):
            bad.append("accuracy-one-iff-all-correct")
    elif fn == "confusion_matrix":
        for a in range(K):
            for b in range(K):
                if res[a][b] != sum(1 for l, p in zip(labels, preds) if l == a and p == b):
                    bad.append("confusion-entry[%d,%d]" % (a, b))
        if res.sum() != L:
            bad.append("confusion-total")
    elif fn == "opf_accuracy_per_label":
        for c in range(K):
            tp = sum(1 for l, p in zip(labels, preds) if l == c and p == c)
            if not math.isclose(float(res[c]), tp / n[c], rel_tol=1e-12, abs_tol=1e-12):
                bad.append("per-label-is-recall[%d]" % c)
    elif fn == "purity":
        pur = float(res)
        tot = 0
        for b in range(K):
            tot += max(sum(1 for l, p in zip(labels, preds) if l == a and p == b) for a in range(K))
        if not math.isclose(pur, tot / L, rel_tol=1e-12):
            bad.append("purity-definition")
        pure = all(labels[i] == labels[j] for i in range(L) for j in range(L) if preds[i] == preds[j])
        if (abs(pur - 1) < 1e-12) != pure:
            bad.append("purity-one-iff-groups-pure")
        if not (0 < pur <= 1 + 1e-12):
            bad.append("purity-range")
    return dict(obs=dict(res=_l(res)), violated=bad)


HANDLERS = {"measure": run_measure}
