"""C01 -- supervised training yields an optimum-path forest under the max-arc cost."""
from . import sup

RUN = ("checks.sup", "run_config")


def configs(tier, seed):
    cfgs = []
    if tier == "quick":
        sizes = [(2, 2), (3, 3), (4, 3)]
    else:
        sizes = [(2, 2), (3, 3), (4, 4), (5, 2)]
    for n, K in sizes:
        for part in sup.partitions(n, 2, K):
            for branch in ("pre", "fn"):
                if n >= 5 and branch == "fn":
                    continue          # the callable branch is covered up to n = 4; n = 5 runs the matrix branch
                cfgs.append(dict(n=n, K=K, part=list(part), branch=branch, weight=10 ** n, deadline_s=5400,
                                 wstride=7 if n <= 3 else (97 if n == 4 else 4001)))
    # the training samples stand for permuted rows of a larger table (Node.idx != position)
    for n, K, ids in ([(3, 2, [3, 0, 2]), (3, 3, [1, 4, 0])] if tier == "quick" else
                      [(3, 2, [3, 0, 2]), (3, 3, [1, 4, 0]), (4, 2, [2, 5, 0, 3]), (4, 3, [4, 1, 3, 0])]):
        for part in sup.partitions(n, 2, K):
            for branch in ("pre", "fn"):
                cfgs.append(dict(n=n, K=K, part=list(part), branch=branch, ids=ids, weight=10 ** n,
                                 wstride=7 if n <= 3 else 97))
    return cfgs


def describe(v, tier):
    v.bounds = dict(n_training_samples="2..4 (quick) / 2..5 (thorough)", classes="<=3 (quick) / <=4, n=5: 2 (thorough)",
                    label_patterns="every set partition with >= 2 blocks, label values symbolic in [0,K)",
                    weight_branches=["pre_computed_distance matrix", "distance_fn callable"],
                    identifiers="positions 0..n-1, and (n=3 quick / n<=4 thorough) permuted rows of a larger table (I_train != arange)")
    v.assumptions = ["0 <= W[i][j] < sys.float_info.max, W symmetric, diagonal unconstrained",
                     "weights are mathematical reals (exact: fit only compares, takes max and copies)",
                     "features carry only sample identity; the metric is an arbitrary table W"]
    v.outside = ["n > 5", "weights >= FLOAT_MAX, NaN, inf", "asymmetric weights"]
    v.stubs = ["numpy -> symx.symnp", "numba.njit -> identity", "opfython.utils.logging.get_logger -> null logger", "time (real)"]


def conformance(v, tier, seed):
    from . import conform
    return conform.gate(v, [("sup", "log_squared_euclidean"), ("sup", "euclidean"), ("sup", "canberra"), ("sup", "manhattan")])
