"""Conformance gate: the twin, fed CONCRETE values from the repository's own data set, must agree with the
real package (real numpy + numba) on every observable.  Ties the numpy/math model to the real libraries on
real-valued inputs (metric bodies included), independently of any solver."""
from __future__ import annotations

import os

from . import common

ROWS = 14


def _load_rows():
    path = os.path.join(common.REPO, "data", "boat.txt")
    rows = []
    for line in open(path):
        p = line.split()
        if len(p) >= 3:
            rows.append([float(t) for t in p])
    # interleave classes so that a small prefix has several labels
    by = {}
    for r in rows:
        by.setdefault(int(r[1]), []).append(r)
    out = []
    k = 0
    while len(out) < ROWS:
        for lab in sorted(by):
            if k < len(by[lab]) and len(out) < ROWS:
                out.append(by[lab][k])
        k += 1
    return out


def run_twin(cfg):
    common.bootstrap()
    from symx import symnp
    tw = common.get_twin()
    symnp.EXACT_CONCRETE = False
    rows = cfg["rows"]
    labs = sorted(set(int(r[1]) for r in rows))
    remap = {l: i for i, l in enumerate(labs)}
    X = symnp.SArr.from_list([r[2:] for r in rows[:10]], dtype="f")
    Y = symnp.SArr.from_list([remap[int(r[1])] for r in rows[:10]], dtype="i")
    Q = symnp.SArr.from_list([r[2:] for r in rows[10:]], dtype="f")
    metric = cfg["metric"]
    model = cfg["model"]
    if model == "sup":
        o = tw.mod("opfython.models.supervised").SupervisedOPF(distance=metric)
        o.fit(X, Y)
        p = [int(t) for t in o.predict(Q)]
    elif model == "uns":
        o = tw.mod("opfython.models.unsupervised").UnsupervisedOPF(min_k=1, max_k=3, distance=metric)
        o.fit(X, Y)
        pp = o.predict(Q)
        p = [[int(t) for t in pp[0]], [int(t) for t in pp[1]]]
    else:
        o = tw.mod("opfython.models.knn_supervised").KNNSupervisedOPF(max_k=3, distance=metric)
        o.fit(X, Y, Q, symnp.SArr.from_list([remap[int(r[1])] for r in rows[10:]], dtype="i"))
        p = [int(t) for t in o.predict(Q)]
    g = o.subgraph
    f = lambda v: float(v) if not hasattr(v, "e") else None
    return dict(cfg=cfg, preds=p, cost=[f(nd.cost) for nd in g.nodes], pred=[int(nd.pred) for nd in g.nodes],
                plabel=[int(nd.predicted_label) for nd in g.nodes], order=[int(t) for t in g.idx_nodes][-10:],
                best_k=int(getattr(g, "best_k", 0)), stats={}, violations=[], witnesses=[], samples=[], functions=[],
                sha256={}, exhaustive=True, error=None)


def gate(v, combos):
    """returns an error string (harness error) or None"""
    import math
    from spec import metrics as SPEC
    base = _load_rows()

    def rows_for(metric):
        if SPEC.DOMAIN[metric] == "R":
            return base
        return [r[:2] + [abs(t) for t in r[2:]] for r in base]      # ratio / log metrics live on x >= 0
    cfgs = [dict(model=m, metric=d, rows=rows_for(d)) for m, d in combos]
    tw = common.run_parallel("checks.conform", "run_twin", cfgs, procs=min(8, len(cfgs)))
    by = {(r["cfg"]["model"], r["cfg"]["metric"]): r for r in tw}
    real = common.run_real([dict(kind="conform", cfg=dict(model=m, metric=d), rows=rows_for(d)) for m, d in combos])
    n_ok = 0
    for (m, d), rr in zip(combos, real):
        t = by[(m, d)]
        if t.get("error"):
            et = t["error"].strip().splitlines()[0].split(":")[0]
            if not rr.get("ok") and str(rr.get("error", "")).startswith(et):
                n_ok += 1          # both sides raise the same exception
                continue
            return "twin failed on %s/%s: %s" % (m, d, t["error"][-300:])
        if not rr.get("ok"):
            return "real package failed on %s/%s: %s" % (m, d, rr.get("error"))
        o = rr["obs"]
        for k in ("preds", "pred", "plabel", "order", "best_k"):
            if t[k] != o[k]:
                return "twin/real disagree on %s/%s observable %s: %r vs %r" % (m, d, k, t[k], o[k])
        for a, b in zip(t["cost"], o["cost"]):
            if a is None or not math.isclose(a, b, rel_tol=1e-9, abs_tol=1e-12):
                return "twin/real disagree on %s/%s cost: %r vs %r" % (m, d, t["cost"], o["cost"])
        n_ok += 1
    v.extra["conformance_gate"] = dict(combinations=[list(c) for c in combos], agreed=n_ok,
                                       data="first %d interleaved rows of data/boat.txt" % ROWS)
    v.traces_validated += n_ok
    return None
