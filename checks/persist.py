"""C19 -- a saved and re-loaded model behaves identically to the original.

The REAL pickle module runs on a symbolically fitted twin model (symbolic scalars serialise their SMT
term); the loaded object is compared attribute by attribute (z3 term equality under the path condition)
and asked to predict a symbolic query next to the original."""
from __future__ import annotations

import z3

from symx import core, symnp, symmath, vfs
from symx.core import to_real, to_int, rv, SymReal, SymInt, SymBool
from . import common, models


def flatten(obj, path="", out=None, seen=None, depth=0):
    """-> list of (path, leaf) for everything reachable from obj's state"""
    if out is None:
        out, seen = [], set()
    if depth > 8:
        out.append((path, "<deep>"))
        return out
    if isinstance(obj, (SymReal, SymInt, SymBool, int, float, str, bool)) or obj is None:
        out.append((path, obj))
    elif isinstance(obj, symnp.SArr):
        out.append((path + ".shape", tuple(obj.shape)))
        for k, v in enumerate(obj.flat()):
            out.append(("%s[%d]" % (path, k), v))
    elif isinstance(obj, (list, tuple)):
        out.append((path + ".len", len(obj)))
        for k, v in enumerate(obj):
            flatten(v, "%s[%d]" % (path, k), out, seen, depth + 1)
    elif isinstance(obj, dict):
        out.append((path + ".keys", tuple(sorted(map(str, obj)))))
        for k in sorted(obj, key=str):
            flatten(obj[k], "%s.%s" % (path, k), out, seen, depth + 1)
    elif callable(obj) and not hasattr(obj, "__dict__"):
        out.append((path, ("callable", getattr(obj, "__module__", None), getattr(obj, "__qualname__", None))))
    elif callable(obj) and hasattr(obj, "__qualname__") and not isinstance(obj, type) and type(obj).__name__ == "function":
        out.append((path, ("callable", obj.__module__, obj.__qualname__)))
    elif hasattr(obj, "__dict__"):
        if id(obj) in seen:
            out.append((path, "<cycle>"))
            return out
        seen.add(id(obj))
        out.append((path + ".class", (type(obj).__module__, type(obj).__qualname__)))
        flatten(dict(vars(obj)), path, out, seen, depth + 1)
    else:
        out.append((path, repr(obj)))
    return out


def same_state(eng, name, a, b, info):
    fa, fb = flatten(a), flatten(b)
    eng.check(name + "-same-structure", [p for p, _ in fa] == [p for p, _ in fb], info)
    if [p for p, _ in fa] != [p for p, _ in fb]:
        return
    conj = []
    for (p, x), (_, y) in zip(fa, fb):
        if core.is_sym(x) or core.is_sym(y):
            r = core.sym_eq(x, y)
            conj.append(core.to_bool(r) if not isinstance(r, bool) else z3.BoolVal(r))
        elif isinstance(x, float) and isinstance(y, float) and x != x and y != y:
            continue
        else:
            if x != y:
                eng.check("%s-attribute%s" % (name, p), False, info)
    if conj:
        eng.check(name + "-same-values", z3.And(conj), info)


def make_harness(cfg, tw):
    model, branch, n = cfg["model"], cfg["branch"], cfg["n"]
    labels = cfg["labels"]
    mods = dict(sup=tw.mod("opfython.models.supervised"), semi=tw.mod("opfython.models.semi_supervised"),
                knn=tw.mod("opfython.models.knn_supervised"), uns=tw.mod("opfython.models.unsupervised"))
    clsname = dict(sup="SupervisedOPF", semi="SemiSupervisedOPF", knn="KNNSupervisedOPF", uns="UnsupervisedOPF")[model]
    cls = getattr(mods[model], clsname)
    metric = cfg.get("metric", "manhattan")

    def harness():
        eng = core.engine()
        symmath.LEVEL = "full"
        vfs.reset()
        N = n + 2          # + one extra sample (semi: unlabeled) + one query
        if model == "knn" and branch == "pre":
            N = n          # KNNSupervisedOPF insists on an (n_train x n_train) matrix: queries are training rows
        kw = dict(distance=metric)
        if model == "knn":
            kw["max_k"] = 1
        if model == "uns":
            kw.update(min_k=1, max_k=1)
        opf = cls(**kw)
        if branch == "pre":
            W = models.sym_matrix(eng, N, N, symmetric=False, diag="free", name="w")
            if model in ("knn", "uns"):
                eng.assume(z3.And([to_real(W[i][j]) > rv(0.001) for i in range(N) for j in range(N) if i != j]))
            opf.pre_computed_distance = True
            opf.pre_distances = symnp.SArr.from_list(W)
            feat = lambda ids: symnp.zeros((len(ids), 1))
            idx = lambda ids: symnp.SArr.from_list(list(ids), dtype="i")
            inp = dict(W=W)
        else:
            f = [eng.real("f%d" % i) for i in range(N)]
            eng.assume(z3.And([z3.And(t.e >= 0, t.e <= 1000) for t in f]))
            if model in ("knn", "uns"):
                eng.assume(z3.Distinct([t.e for t in f]))
            feat = lambda ids: symnp.SArr.from_list([[f[i]] for i in ids], dtype="f")
            idx = lambda ids: None
            inp = dict(f=f)
        tr = list(cfg.get("tr") or range(n))     # pre-computed branch: training rows in any order (Node.idx != position)
        X, Y, I = feat(tr), symnp.SArr.from_list(list(labels), dtype="i"), idx(tr)
        if model == "sup":
            opf.fit(X, Y, I)
        elif model == "semi":
            opf.fit(X, Y, feat([n]), I)
        elif model == "knn":
            opf.fit(X, Y, X, Y, I, I)
        else:
            opf.fit(X, Y, I)
        before = flatten(opf)
        opf.save("model.pkl")
        other = cls(**{k: v for k, v in kw.items() if k != "distance"})
        other.load("model.pkl")
        q = [n + 1] if N > n else [0]
        p1 = opf.predict(feat(q), idx(q))
        p2 = other.predict(feat(q), idx(q))
        return dict(inp=inp, opf=opf, other=other, before=before, p1=p1, p2=p2)
    return harness


def payload(eng, m, cfg, out):
    ev = lambda v: common.fraction_to_float(eng.eval_model(m, v))
    inp = out["inp"]
    if "W" in inp:
        return dict(kind="persist", cfg=cfg, W=[[ev(v) for v in r] for r in inp["W"]])
    return dict(kind="persist", cfg=cfg, f=[ev(v) for v in inp["f"]])


def obligations(eng, cfg, out, info):
    opf, other = out["opf"], out["other"]
    # saving does not alter the original (state before save vs the state the loaded copy was made from is
    # compared through the loaded copy; here: before-save flattening vs after-predict is not meaningful for
    # the supervised relevance flags, so compare before-save with the loaded object instead)
    fa = out["before"]
    fb = flatten(other)
    eng.check("loaded-has-same-structure-as-saved", [p for p, _ in fa] == [p for p, _ in fb], info)
    if [p for p, _ in fa] == [p for p, _ in fb]:
        conj = []
        relevant_paths = 0
        for (p, x), (_, y) in zip(fa, fb):
            if p.endswith("._relevant"):
                relevant_paths += 1
                continue               # predict (run after save) may flag relevance on either object
            if core.is_sym(x) or core.is_sym(y):
                r = core.sym_eq(x, y)
                conj.append(core.to_bool(r) if not isinstance(r, bool) else z3.BoolVal(r))
            elif isinstance(x, float) and isinstance(y, float) and x != x and y != y:
                continue
            elif x != y:
                eng.check("loaded-attribute%s" % p, False, info)
        if conj:
            eng.check("loaded-state-equals-saved-state", z3.And(conj), info)
    flat = lambda p: list(p[0]) + list(p[1]) if isinstance(p, tuple) else list(p)
    for k, (a, b) in enumerate(zip(flat(out["p1"]), flat(out["p2"]))):
        eng.check("loaded-model-predicts-like-the-original[%d]" % k, core.sym_eq(a, b), info)
    eng.check("same-number-of-predictions", len(flat(out["p1"])) == len(flat(out["p2"])), info)
    # saving left the original as it was (up to relevance flags written by the later predict)
    fc = flatten(opf)
    same = [p for p, _ in fa] == [p for p, _ in fc]
    eng.check("save-keeps-original-structure", same, info)
    if same:
        conj = []
        for (p, x), (_, y) in zip(fa, fc):
            if p.endswith("._relevant"):
                continue
            if core.is_sym(x) or core.is_sym(y):
                r = core.sym_eq(x, y)
                conj.append(core.to_bool(r) if not isinstance(r, bool) else z3.BoolVal(r))
            elif not (isinstance(x, float) and x != x) and x != y:
                eng.check("save-changed-original%s" % p, False, info)
        if conj:
            eng.check("save-does-not-alter-the-original", z3.And(conj), info)


def run_config(cfg):
    common.bootstrap()
    tw = common.get_twin()
    harness = make_harness(cfg, tw)

    def on_leaf(eng, out):
        obligations(eng, cfg, out, lambda m: payload(eng, m, cfg, out))
    return common.explore(cfg, harness, twin=tw, on_leaf=on_leaf, deadline_s=cfg.get("deadline_s", 600),
                          seed=cfg.get("seed", 0), solver_timeout_ms=cfg.get("timeout_ms", 30000))
