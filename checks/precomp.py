"""C10 -- pre-computed distances are equivalent to computing the metric on the fly.

The real pre_compute_distance writes the matrix through the virtual file system, the real
_read_distances / loader read it back, and two models differing only in `pre_computed_distance`
are fitted and asked to predict inside the same symbolic path; D is NOT assumed symmetric, so any
index transposition is visible."""
from __future__ import annotations

import itertools

import z3

from symx import core, symnp, symmath, vfs
from symx.core import to_real, to_int, rv
from . import common, models

STUB = "euclidean"        # registry slot that carries the table metric during the run


def make_harness(cfg, tw):
    model, m, ntr, nte, ext = cfg["model"], cfg["m"], cfg["ntr"], cfg["nte"], cfg["ext"]
    labels_cfg = cfg.get("labels")
    dist = tw.mod("opfython.math.distance")
    gen = tw.mod("opfython.math.general")
    sup = tw.mod("opfython.models.supervised")
    semi = tw.mod("opfython.models.semi_supervised")
    uns = tw.mod("opfython.models.unsupervised")

    def harness():
        eng = core.engine()
        symmath.LEVEL = "full"
        vfs.reset()
        D = models.sym_matrix(eng, m, m, symmetric=False, diag="free", name="d")
        if model == "uns":
            # keep the density constant well defined (see C12): some positive distance exists per row
            eng.assume(z3.And([z3.And([to_real(D[i][j]) > rv(0.001) for j in range(m) if j != i]) for i in range(m)]))
        table = models.table_metric(D)
        saved = dist.DISTANCES[STUB]
        dist.DISTANCES[STUB] = table
        try:
            data = symnp.SArr.from_list([[float(i)] for i in range(m)])
            fname = "distances." + ext
            out = dict(D=D)
            gen.pre_compute_distance(data, fname, STUB)
            # every injective choice of training / test rows
            rows = list(range(m))
            trs = list(itertools.permutations(rows, ntr))
            tr = list(trs[eng.choose(len(trs), "train")])
            rest = [r for r in rows if r not in tr]
            if model == "semi":
                # fit() offers no index array for the unlabeled rows: node idx = n_labeled + i, so the only
                # expressible layout is "labeled rows first, then the unlabeled ones"
                tr = list(range(ntr))
                rest = [r for r in rows if r not in tr]
            tes = list(itertools.permutations(rest, nte))
            te = list(tes[eng.choose(len(tes), "test")])
            out.update(tr=tr, te=te)
            labels = labels_cfg or [i % 2 for i in range(ntr)]
            X = symnp.SArr.from_list([[float(r)] for r in tr])
            Y = symnp.SArr.from_list(list(labels), dtype="i")
            I = symnp.SArr.from_list(list(tr), dtype="i")
            Xq = symnp.SArr.from_list([[float(r)] for r in te])
            Iq = symnp.SArr.from_list(list(te), dtype="i")
            res = {}
            for tag in ("pre", "fly"):
                kw = dict(distance=STUB)
                if tag == "pre":
                    kw["pre_computed_distance"] = fname
                if model == "sup":
                    o = sup.SupervisedOPF(**kw)
                    o.fit(X, Y, I)
                    p = o.predict(Xq, Iq) if nte else []
                elif model == "semi":
                    o = semi.SemiSupervisedOPF(**kw)
                    nu = cfg["nu"]
                    Xu = symnp.SArr.from_list([[float(ntr + i)] for i in range(nu)])
                    o.fit(X, Y, Xu, I)
                    p = o.predict(Xq, Iq) if nte else []
                else:
                    o = uns.UnsupervisedOPF(min_k=1, max_k=cfg.get("k", 1), **kw)
                    o.fit(X, Y, I)
                    p = o.predict(Xq, Iq) if nte else []
                res[tag] = (o, p)
            out["res"] = res
            out["gd"] = res["fly"][0].get_distances()
            out["gdn"] = res["fly"][0].get_distances(normalize=True) if cfg.get("normalize") else None
            out["gd_pre"] = res["pre"][0].get_distances()
            return out
        finally:
            dist.DISTANCES[STUB] = saved
    return harness


def payload(eng, m, cfg, out):
    Dv = [[common.fraction_to_float(x) for x in r] for r in models.eval_matrix(eng, m, out["D"])]
    return dict(kind="precomp", cfg=cfg, D=Dv, tr=out.get("tr"), te=out.get("te"))


def obligations(eng, cfg, out, info):
    (oa, pa), (ob, pb) = out["res"]["pre"], out["res"]["fly"]
    ga, gb = oa.subgraph, ob.subgraph
    eng.check("same-number-of-nodes", len(ga.nodes) == len(gb.nodes), info)
    for i, (a, b) in enumerate(zip(ga.nodes, gb.nodes)):
        for attr in ("cost", "pred", "predicted_label", "status", "cluster_label", "root", "label", "density"):
            eq = core.sym_eq(getattr(a, attr), getattr(b, attr))
            eng.check("same-%s[%d]" % (attr, i), eq, info)
    eng.check("same-conquest-order", list(ga.idx_nodes) == list(gb.idx_nodes), info)
    if cfg["model"] == "uns":
        eng.check("same-n_clusters", ga.n_clusters == gb.n_clusters, info)
        eng.check("same-best_k", ga.best_k == gb.best_k, info)
    flat = lambda p: list(p[0]) + list(p[1]) if isinstance(p, tuple) else list(p)
    fa, fb = flat(pa), flat(pb)
    eng.check("same-number-of-predictions", len(fa) == len(fb), info)
    for i, (a, b) in enumerate(zip(fa, fb)):
        eng.check("same-prediction[%d]" % i, core.sym_eq(a, b), info)
    # reported distance matrix = metric on every ordered pair of training samples
    tr = out["tr"]
    D = out["D"]
    nodes_rows = [int(nd.features[0]) for nd in gb.nodes]
    n = len(nodes_rows)
    for name in ("gd", "gd_pre"):
        gd = out[name]
        ok = isinstance(gd, symnp.SArr) and gd.shape == (n, n)
        eng.check("%s-shape" % name, ok, info)
        if ok:
            for i in range(n):
                for j in range(n):
                    eng.check("%s-entry[%d,%d]" % (name, i, j), to_real(gd._get((i, j))) == to_real(D[nodes_rows[i]][nodes_rows[j]]), info)
    if out.get("gdn") is not None:
        ent = [to_real(D[nodes_rows[i]][nodes_rows[j]]) for i in range(n) for j in range(n)]
        mn, mx = models.zmin_list(ent), models.zmax_list(ent)
        g = out["gdn"]
        for i in range(n):
            for j in range(n):
                raw = g._get((i, j))
                if isinstance(raw, float) and raw != raw:
                    eng.check("normalised-entry-nan-only-when-all-equal[%d,%d]" % (i, j), mx == mn, info)
                    continue
                v = to_real(raw)
                eng.check("normalised-entry[%d,%d]" % (i, j),
                          z3.Implies(mx > mn, v * (mx - mn) == to_real(D[nodes_rows[i]][nodes_rows[j]]) - mn), info)


def run_config(cfg):
    common.bootstrap()
    tw = common.get_twin()
    harness0 = make_harness(cfg, tw)

    def harness():
        try:
            return harness0()
        except core.Unsupported:
            raise
        except (ValueError, TypeError, KeyError, IndexError, OSError) as ex:
            # a failure of the library on a valid configuration is a violation candidate, replayed on the real code
            return dict(raised="%s: %s" % (type(ex).__name__, str(ex)[:200]))

    def on_leaf(eng, out):
        if "raised" in out:
            eng.check("pipeline-does-not-raise", False,
                      lambda m: dict(kind="precomp", cfg=cfg, D=None, tr=None, te=None, raised=out["raised"]))
            return
        obligations(eng, cfg, out, lambda m: payload(eng, m, cfg, out))

    def witness(eng, m, out):
        if "raised" in out:
            return None
        p = payload(eng, m, cfg, out)
        ev = lambda x: common.fraction_to_float(eng.eval_model(m, x))
        o, pr = out["res"]["pre"]
        flat = lambda q: [list(map(ev, q[0])), list(map(ev, q[1]))] if isinstance(q, tuple) else [ev(x) for x in q]
        p["expected"] = dict(preds=flat(pr), cost=[ev(nd.cost) for nd in o.subgraph.nodes],
                             plabel=[ev(nd.predicted_label) for nd in o.subgraph.nodes])
        return p
    return common.explore(cfg, harness, twin=tw, on_leaf=on_leaf, witness_fn=witness if cfg["model"] != "uns" else None,
                          witness_stride=cfg.get("wstride", 0), deadline_s=cfg.get("deadline_s", 900),
                          seed=cfg.get("seed", 0), solver_timeout_ms=cfg.get("timeout_ms", 30000),
                          logic="fresh" if cfg.get("fresh") else None)
