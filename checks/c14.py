"""C14 -- KNN/unsupervised prediction follows the exhaustive k-nearest max-min rule."""
RUN = ("checks.knn", "run_config")


def configs(tier, seed):
    cfgs = []
    sizes = [(2, 1), (3, 1), (3, 2), (4, 2)] if tier == "quick" else [(2, 1), (2, 2), (3, 1), (3, 2), (3, 3), (4, 1), (4, 2), (4, 3), (5, 2)]
    for n, k in sizes:
        for model in ("knn", "uns"):
            for branch in ("pre", "fn"):
                if tier == "quick" and n == 4 and branch == "fn":
                    continue
                batches = [[0]] if n >= 4 else [[0, 1]]
                cfgs.append(dict(kind="predict", n=n, k=k, model=model, branch=branch, nq=2 if n < 4 else 1,
                                 batches=batches, wstride=1, weight=(n ** k) * 20, timeout_ms=60000))
    # the samples stand for permuted rows of a larger table (Node.idx != position, query identifiers interleaved)
    perm = [(2, 1, [3, 0], [1, 2]), (3, 2, [4, 0, 2], [3, 1])]
    if tier != "quick":
        perm += [(3, 3, [4, 0, 2], [3, 1]), (4, 2, [5, 1, 0, 3], [4, 2]), (4, 3, [5, 1, 0, 3], [2, 4])]
    for n, k, idx, qidx in perm:
        for model in ("knn", "uns"):
            for branch in ("pre", "fn"):
                cfgs.append(dict(kind="predict", n=n, k=k, model=model, branch=branch, nq=2, idx=idx, qidx=qidx,
                                 batches=[[0, 1]] if n < 4 else [[1]], wstride=1, weight=(n ** k) * 20,
                                 timeout_ms=60000))
    return cfgs


def signature(prop, cfg, viol):
    from .driver import strip_idx
    return "%s:%s:%s" % (prop, cfg.get("model"), strip_idx(viol["name"]))


def describe(v, tier):
    v.bounds = dict(state="injected fitted model: n<=4 training samples, k<=2 (quick) / n<=5, k<=3 (thorough); symbolic costs, labels, cluster ids, constant>0, min_density<=max_density",
                    queries="batches of 1-2 symbolic query distance vectors; also with training/query samples standing for permuted, interleaved rows of a larger table (Node.idx != position)")
    v.assumptions = ["exp uninterpreted (congruence + monotonicity); k <= n",
                     "0 <= distances < FLOAT_MAX, 0 <= cost <= MAX_DENSITY, 0 <= min_density <= max_density <= 1, 0 < constant <= 1e6"]
    v.outside = ["k > n", "n > 5"]
    v.stubs = ["numpy -> symx.symnp", "np.exp -> uninterpreted function", "logging -> null logger"]
