"""C03 -- supervised prediction equals the exhaustive minimum of max(cost, distance)."""
from . import sup

RUN = ("checks.c03", "run")


def run(cfg):
    if cfg.get("kind") == "predict":
        from . import knn
        return knn.run_config(cfg)
    return sup.run_config(cfg)



def configs(tier, seed):
    cfgs = []
    if tier == "quick":
        sizes = [(2, 2, 1), (3, 3, 1), (3, 2, 2), (4, 2, 1)]
    else:
        sizes = [(2, 2, 2), (3, 3, 2), (4, 3, 1), (4, 2, 2), (5, 2, 1)]
    for n, K, nq in sizes:
        for part in sup.partitions(n, 2, K):
            for branch in ("pre", "fn"):
                if n >= 5 and branch == "fn":
                    continue
                cfgs.append(dict(n=n, K=K, nq=nq, part=list(part), branch=branch, weight=10 ** n * 4 ** nq,
                                 wstride=11 if n <= 3 else (197 if n == 4 else 9001)))
    # training samples and queries standing for permuted rows of a larger table (Node.idx != position)
    for n, K, ids in ([(3, 2, [3, 0, 2, 1])] if tier == "quick" else [(3, 2, [3, 0, 2, 1]), (3, 3, [1, 4, 0, 2]), (4, 2, [2, 5, 0, 3, 1])]):
        for part in sup.partitions(n, 2, K):
            for branch in ("pre", "fn"):
                cfgs.append(dict(n=n, K=K, nq=1, part=list(part), branch=branch, ids=ids, weight=10 ** n * 4,
                                 wstride=11 if n <= 3 else 197))
    # semi-supervised predict is inherited: exercised on a forest that contains unlabeled samples
    for n, nu in ([(2, 1)] if tier == "quick" else [(2, 1), (2, 2), (3, 1)]):
        for part in sup.partitions(n, 2, 2):
            for branch in ("pre", "fn"):
                cfgs.append(dict(n=n, nu=nu, nq=1, K=2, part=list(part), branch=branch, semi=True,
                                 weight=10 ** (n + nu) * 4, wstride=53))
    # the classifier object had an earlier life (fit on other symbolic data + one prediction) before this fit:
    # "for a fitted classifier" holds for a re-fitted object too (supervised and semi-supervised)
    for n, nu, h in ([(2, 0, 2), (2, 1, 2)] if tier == "quick" else [(2, 0, 2), (2, 1, 2), (3, 0, 3), (2, 1, 3), (3, 1, 3)]):
        for part in sup.partitions(n, 2, 2):
            for branch in ("pre", "fn"):
                cfgs.append(dict(n=n, nu=nu, nq=1, K=2, part=list(part), branch=branch, semi=bool(nu), hist=h,
                                 weight=10 ** (n + nu + h) * 4, wstride=53))
    # state-injected: arbitrary forest (symbolic costs and labels, every conquest order with non-decreasing
    # cost -- the post-condition C01 establishes), one or two symbolic queries
    for n in ([2, 3, 4, 5] if tier == "quick" else [2, 3, 4, 5, 6]):
        for branch in ("pre", "fn"):
            if n >= 6 and branch == "fn":
                continue
            cfgs.append(dict(kind="predict", model="sup", n=n, k=1, branch=branch, nq=1 if n >= 5 else 2,
                             batches=[[0]] if n >= 5 else [[0, 1]], weight=(n ** n) * 3, wstride=1 if n <= 3 else 101))
    return cfgs


def signature(prop, cfg, viol):
    from .driver import strip_idx
    return "%s:%s:%s" % (prop, cfg.get("kind", "end-to-end"), strip_idx(viol["name"]))


def describe(v, tier):
    v.bounds = dict(n_training_samples="2..4 (quick) / 2..5 (thorough)", queries_per_batch="1..2",
                    harness="end-to-end: real fit, then real predict on symbolic query distance vectors (also on an object that was fitted on other data and used for a prediction before); and state-injected: "
                            "arbitrary forest with n<=5 (quick) / n<=6 (thorough) nodes, symbolic costs/labels, every cost-compatible conquest order",
                    weight_branches=["pre_computed_distance matrix", "distance_fn callable"])
    v.assumptions = ["0 <= W[i][j] < sys.float_info.max, symmetric; query distances are further free entries of W "
                     "(equal to training distances, tied and arbitrarily large values are all allowed)"]
    v.outside = ["n > 5", "forests not produced by fit (hand-made subgraphs)"]
    v.stubs = ["numpy -> symx.symnp", "numba.njit -> identity", "logging -> null logger"]
