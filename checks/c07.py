"""C07 -- no call modifies caller data; results depend only on argument values."""
from spec import metrics as SPEC

RUN = ("checks.purity", "run_config")
MAX_REPLAYS = 8


def configs(tier, seed):
    cfgs = []
    for name in sorted(SPEC.CLOSED):
        for n in ([1, 2] if tier == "quick" else [1, 2, 3]):
            cfgs.append(dict(kind="metric", metric=name, n=n, weight=n))
    mm = [("sup", "manhattan"), ("sup", "canberra"), ("semi", "canberra"), ("semi", "manhattan"),
          ("knn", "manhattan"), ("uns", "manhattan")]
    if tier == "thorough":
        mm += [("sup", "chi_squared"), ("knn", "canberra"), ("uns", "canberra"), ("sup", "squared_euclidean")]
    for model, metric in mm:
        labs = [[0, 1, 0], [0, 0, 1]] if tier == "quick" else [[0, 1, 0], [0, 0, 1], [0, 1, 1]]
        for labels in labs:
            fresh = metric in SPEC.DECORATED       # non-linear branch conditions: re-solve from scratch
            cfgs.append(dict(kind="model", model=model, metric=metric, n=3, nq=1, labels=labels, fresh=fresh, weight=500))
            if not fresh:
                cfgs.append(dict(kind="model", model=model, metric=metric, n=3, nq=1, labels=labels, zeros=True, weight=500))
    return cfgs


def signature(prop, cfg, viol):
    name = viol["name"]
    site = name.split("@")[1] if "@" in name else ""
    site = site.rsplit(":", 1)[0]          # drop the line number: file:function identifies the site
    return "%s:%s:%s" % (prop, name.split("@")[0], site)


def describe(v, tier):
    v.bounds = dict(metrics="all 47, vectors of length 1..2 (quick) / 1..3 (thorough), symbolic elements in the metric's domain",
                    models="fit + predict of the four models on 3 training samples + 1 query with one feature, metrics manhattan (undecorated) and canberra (decorated); thorough adds chi_squared / squared_euclidean",
                    histories="three evaluations per metric (same values again after an unrelated call); two fits of fresh models on equal data")
    v.assumptions = ["a write v <- v + c changes a float64 iff the QF_FP query  fl(x + c) != x  is satisfiable (z3, Float64, RNE)",
                     "other write patterns are candidates decided by replay (bytes of the caller's arrays before vs after on the real package)",
                     "the numpy model logs every element store into buffers owned by the caller, including stores through views (Node.features is a view of a row of X)"]
    v.outside = ["vectors longer than 3, more than 3 training samples", "arrays that alias each other on entry"]
    v.stubs = ["numpy -> symx.symnp with write log", "numba.njit -> identity"]
