"""C07 -- no call modifies caller data; results depend only on argument values."""
from spec import metrics as SPEC

RUN = ("checks.c07", "run")
MAX_REPLAYS = 8


def run(cfg):
    if cfg.get("kind") == "refit":
        from . import knn
        return knn.run_config(cfg)
    from . import purity
    return purity.run_config(cfg)


def configs(tier, seed):
    cfgs = []
    for name in sorted(SPEC.CLOSED):
        for n in ([1, 2] if tier == "quick" else [1, 2, 3]):
            cfgs.append(dict(kind="metric", metric=name, n=n, weight=n))
    mm = [("sup", "manhattan"), ("sup", "canberra"), ("semi", "canberra"), ("semi", "manhattan"),
          ("knn", "manhattan"), ("uns", "manhattan")]
    if tier == "thorough":
        mm += [("sup", "chi_squared"), ("knn", "canberra"), ("uns", "canberra"), ("sup", "squared_euclidean")]
    for model, metric in mm:
        labs = [[0, 1, 0], [0, 0, 1]] if tier == "quick" else [[0, 1, 0], [0, 0, 1], [0, 1, 1]]
        for labels in labs:
            fresh = metric in SPEC.DECORATED       # non-linear branch conditions: re-solve from scratch
            cfgs.append(dict(kind="model", model=model, metric=metric, n=3, nq=1, labels=labels, fresh=fresh, weight=500))
            if not fresh:
                cfgs.append(dict(kind="model", model=model, metric=metric, n=3, nq=1, labels=labels, zeros=True, weight=500))
    # call histories of fits: an object fitted before (on a smaller set) and fitted again equals a never-used object
    rf = [("uns", 2, 3, 2), ("knn", 3, 3, 2), ("sup", 2, 3, 0)]     # KNN fit needs max_k < n
    if tier == "thorough":
        rf += [("uns", 3, 3, 2), ("uns", 2, 4, 3), ("knn", 3, 4, 2), ("sup", 3, 4, 0)]
    for model, n1, n2, mk in rf:
        cfgs.append(dict(kind="refit", model=model, n1=n1, n2=n2, max_k=mk, labels=[0, 1, 0, 1][:max(n1, n2)], logic="fresh",
                         weight=(n2 ** n2) * 300 * max(mk, 1), deadline_s=1500))
    # ... and the earlier life includes a prediction (fit, predict, fit, predict): state and final prediction equal
    # those of a never-used object; supervised and semi-supervised (whose fit overrides the parent's)
    for model, n1, n2 in ([("sup", 2, 3), ("semi", 3, 3)] if tier == "quick" else [("sup", 2, 3), ("sup", 3, 3), ("semi", 3, 3), ("semi", 3, 4), ("semi", 4, 4)]):
        cfgs.append(dict(kind="refit", model=model, n1=n1, n2=n2, max_k=0, mid_predict=True, labels=[0, 1, 0, 1][:max(n1, n2)],
                         logic="fresh", weight=(n2 ** n2) * 300, deadline_s=1500))
    return cfgs


def compare(w, rr):
    """path witnesses of the model harness evaluate real metric bodies: the twin is exact over the reals, the real
    package rounds.  At an exact tie of two arc weights the two may legitimately pick different sides.  A mismatch
    is therefore a harness error only if the real package's answer is *stable* around the witness point; if tiny
    perturbations of the inputs make the real package return the twin's answer too, the witness sits on a decision
    boundary and says nothing about the encoding."""
    from .driver import default_compare
    from . import common
    mm = default_compare(w, rr)
    if not mm or w.get("kind") != "purity_model":
        return mm
    feats = w["feats"]
    reqs = []
    for i in range(len(feats)):
        for d in (1e-9, -1e-9, 1e-6, -1e-6):
            f2 = list(feats)
            f2[i] = feats[i] * (1 + d) + d * 1e-3
            reqs.append(dict(w, feats=f2))
    for r2 in common.run_real(reqs):
        if r2.get("ok") and default_compare(w, r2) is None:
            return None
    return mm


def signature(prop, cfg, viol):
    name = viol["name"]
    site = name.split("@")[1] if "@" in name else ""
    site = site.rsplit(":", 1)[0]          # drop the line number: file:function identifies the site
    return "%s:%s:%s" % (prop, name.split("@")[0], site)


def describe(v, tier):
    v.bounds = dict(metrics="all 47, vectors of length 1..2 (quick) / 1..3 (thorough), symbolic elements in the metric's domain",
                    models="fit + predict of the four models on 3 training samples + 1 query with one feature, metrics manhattan (undecorated) and canberra (decorated); thorough adds chi_squared / squared_euclidean",
                    histories="three evaluations per metric (same values again after an unrelated call); two fits of fresh models on equal data; "
                              "a model object fitted on 2 samples and then on 3 (quick) / up to 4 (thorough) vs a never-used object (table metric, max_k 2..3); supervised / semi-supervised also fit, predict, fit, predict with the final prediction compared")
    v.assumptions = ["a write v <- v + c changes a float64 iff the QF_FP query  fl(x + c) != x  is satisfiable (z3, Float64, RNE)",
                     "other write patterns are candidates decided by replay (bytes of the caller's arrays before vs after on the real package)",
                     "the numpy model logs every element store into buffers owned by the caller, including stores through views (Node.features is a view of a row of X)"]
    v.outside = ["vectors longer than 3, more than 3 training samples", "arrays that alias each other on entry"]
    v.stubs = ["numpy -> symx.symnp with write log", "numba.njit -> identity"]
