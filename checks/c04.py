"""C04 -- zero resubstitution error (supervised part; the KNN part lives in checks/knn.py)."""
from . import sup

RUN = ("checks.c04", "run")
MAX_WITNESSES = 160


def run(cfg):
    if cfg.get("sub") == "knn":
        from . import knn
        return knn.run_config(cfg)
    return sup.run_config(cfg)



def configs(tier, seed):
    cfgs = []
    sizes = [(2, 2), (3, 3), (4, 3)] if tier == "quick" else [(2, 2), (3, 3), (4, 4), (5, 2)]
    for n, K in sizes:
        for part in sup.partitions(n, 2, K):
            for branch in ("pre", "fn"):
                if n >= 5 and branch == "fn":
                    continue
                cfgs.append(dict(n=n, K=K, part=list(part), branch=branch, distinct=True, zero_diag=True, positive=True, resub=True,
                                 weight=10 ** n, wstride=5 if n <= 3 else (41 if n == 4 else 2001), sub="sup"))
    # the training samples standing for permuted rows of a larger table (Node.idx != position)
    for n, K, ids in ([(3, 2, [3, 0, 2])] if tier == "quick" else [(3, 2, [3, 0, 2]), (3, 3, [1, 4, 0]), (4, 2, [2, 5, 0, 3])]):
        for part in sup.partitions(n, 2, K):
            for branch in ("pre", "fn"):
                cfgs.append(dict(n=n, K=K, part=list(part), branch=branch, distinct=True, zero_diag=True, positive=True, resub=True,
                                 ids=ids, weight=10 ** n, wstride=5 if n <= 3 else 41, sub="sup"))
    # KNN-supervised: final clustering with force_prototype=True from an arbitrary clean k-NN graph state
    # (densities with ties allowed) leaves every training sample with its own true label
    ksizes = [(2, 1), (3, 1), (3, 2), (4, 1)] if tier == "quick" else [(2, 1), (3, 1), (3, 2), (4, 1), (4, 2), (4, 3), (5, 1)]
    for n, k in ksizes:
        for K in (2, 3):
            if K > n:
                continue
            cfgs.append(dict(kind="cluster", n=n, k=k, model="knn", force=True, K=K, sub="knn",
                             weight=(n ** n) * 10 ** k * 3, wstride=7 if n <= 3 else 397))
    # ... and the real fit() end to end (candidate clusterings, then the forced one, on the same graph)
    e2e = [(3, 1, 1, [0, 1, 0], [1]), (3, 1, 1, [0, 0, 1], [0]), (3, 2, 1, [0, 1, 1], [0, 1]), (3, 1, 2, [0, 1, 0], [1])]
    if tier == "thorough":
        e2e += [(3, 1, 2, [0, 0, 1], [1]), (4, 1, 1, [0, 1, 0, 1], [0]), (4, 1, 2, [0, 1, 1, 0], [1])]
    for n, nv, mk, labs, vl in e2e:
        cfgs.append(dict(kind="e2e", model="knn", n=n, nv=nv, max_k=mk, labels=labs, vlabels=vl, sub="knn", logic="fresh",
                         weight=(n ** n) * 500 * mk, deadline_s=2400))
    return cfgs


def signature(prop, cfg, viol):
    from .driver import strip_idx
    return "%s:%s:%s" % (prop, cfg.get("sub"), strip_idx(viol["name"]))


def describe(v, tier):
    v.bounds = dict(supervised="n<=4 (quick) / n<=5 (thorough), every label pattern, both weight branches, fit + predict(X_train)",
                    knn_supervised="_clustering(force_prototype=True) from an arbitrary clean k-NN graph state: n<=3 all k, n=4 k=1 (quick) / n=4 k<=3, n=5 k=1 (thorough), 2-3 classes, ties allowed")
    v.assumptions = ["supervised: all off-diagonal distances pairwise distinct and strictly positive, d(s,s) = 0, symmetric "
                     "(two different samples at distance 0 with different labels cannot both be classified correctly by any "
                     "function of the distances; 'tie-free' is read as excluding that)",
                     "KNN: injected state = post-condition of create_arcs + calculate_pdf (C12)",
                     "which of the 47 metrics are symmetric / non-negative / zero on the diagonal is decided by C08"]
    v.outside = ["n > 5"]
    v.stubs = ["numpy -> symx.symnp", "logging -> null logger"]


def conformance(v, tier, seed):
    from . import conform
    return conform.gate(v, [("knn", "log_squared_euclidean"), ("knn", "bray_curtis"), ("sup", "squared_euclidean")])
