"""C04 -- zero resubstitution error (supervised part; the KNN part lives in checks/knn.py)."""
from . import sup

RUN = ("checks.sup", "run_config")


def configs(tier, seed):
    cfgs = []
    sizes = [(2, 2), (3, 3), (4, 3)] if tier == "quick" else [(2, 2), (3, 3), (4, 4), (5, 2)]
    for n, K in sizes:
        for part in sup.partitions(n, 2, K):
            for branch in ("pre", "fn"):
                cfgs.append(dict(n=n, K=K, part=list(part), branch=branch, distinct=True, zero_diag=True, positive=True, resub=True,
                                 weight=10 ** n, wstride=5 if n <= 3 else (41 if n == 4 else 2001), sub="sup"))
    return cfgs
