"""C18 -- splitting, merging, loading, parsing and converting preserve every sample."""
RUN = ("checks.stream", "run_config")


def configs(tier, seed):
    cfgs = []
    sizes = [(2, 1), (3, 2), (4, 1)] if tier == "quick" else [(2, 1), (3, 2), (4, 3), (5, 1)]
    for n, f in sizes:
        cfgs.append(dict(kind="split", n=n, f=f, weight=n ** n * 10))
        cfgs.append(dict(kind="split", n=n, f=f, with_index=True, weight=n ** n * 10))
    conv = [(1, 1, 1), (2, 2, 2), (3, 1, 3), (3, 3, 2)] if tier == "quick" else [(1, 1, 1), (2, 2, 2), (3, 1, 3), (3, 3, 2), (4, 2, 3), (4, 4, 4)]
    for n, f, K in conv:
        cfgs.append(dict(kind="convert", n=n, f=f, K=K, weight=n ** n * 50))
    return cfgs


def compare(w, rr):
    from .driver import _same
    if not rr.get("ok"):
        return "real code raised: %s" % rr.get("error")
    if rr.get("violated"):
        return "real pipeline violates the property on a path witness: %s" % rr["violated"][:3]
    if not _same(w["expected"]["txt"], rr["obs"].get("txt")):
        return "loaded table differs: twin %r real %r" % (w["expected"]["txt"], rr["obs"].get("txt"))
    if sorted(w["expected"]["accepted"]) != rr["obs"].get("accepted"):
        return "accepted formats differ: twin %r real %r" % (w["expected"]["accepted"], rr["obs"].get("accepted"))
    return None


def signature(prop, cfg, viol):
    from .driver import strip_idx
    return "%s:%s:%s" % (prop, cfg.get("kind"), strip_idx(viol["name"]))


def describe(v, tier):
    v.bounds = dict(split="n<=4 rows, <=2 features (quick) / n<=5, <=3 features (thorough); symbolic features, labels, percentage in [0,1], seed; every permutation the generator may return",
                    convert="n<=3 samples, <=3 features, <=3 classes (quick) / n<=4, 4 features, 4 classes (thorough); symbolic ids, labels, float32 feature values; txt, csv and json")
    v.assumptions = ["np.random.permutation returns an arbitrary permutation that is a function of the generator state; np.random.seed(s) sets that state",
                     "file contract of symx.vfs (delimiters, text round-trip, json round-trip, typed binary fields)",
                     "floor(n*p): real arithmetic (the float rounding of n*p is outside the claim)"]
    v.outside = ["byte-level struct decoding, decimal / JSON text formatting and parsing", "RNG quality"]
    v.stubs = ["np.random -> nondeterministic contract stub", "open / struct / json / np.savetxt / np.loadtxt -> virtual file system"]
