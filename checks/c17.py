"""C17 -- learning conserves samples and keeps the best model; pruning only discards."""
RUN = ("checks.learn", "run_config")
MAX_REPLAYS = 12


def configs(tier, seed):
    cfgs = []
    if tier == "quick":
        # the last one has two non-prototype training samples and two validation samples: two swaps in one iteration
        L = [(3, 2, [0, 1, 0], [0, 1], 2), (3, 2, [0, 1, 1], [1, 0], 2), (3, 1, [0, 1, 0], [1], 2), (2, 2, [0, 1], [1, 0], 2),
             (4, 2, [0, 0, 1, 1], [1, 0], 1, [0, 1, 5, 7])]
        R = [(3, 1, [0, 1, 0], [0]), (3, 2, [0, 1, 0], [0, 1]), (4, 1, [0, 1, 0, 1], [0]), (3, 1, [0, 0, 1], [1])]
        P = [(3, 1, [0, 1, 0], [0], 1), (4, 2, [0, 1, 0, 1], [0, 1], 1), (4, 1, [0, 1, 1, 0], [1], 2)]
    else:
        L = [(3, 2, [0, 1, 0], [0, 1], 3), (3, 2, [0, 1, 1], [1, 0], 3), (4, 2, [0, 1, 0, 1], [0, 1], 2),
             (4, 2, [0, 0, 1, 1], [1, 0], 3), (3, 1, [0, 1, 0], [1], 3), (2, 2, [0, 1], [1, 0], 3),
             (4, 2, [0, 0, 1, 1], [1, 0], 2, [0, 1, 5, 7]), (5, 2, [0, 0, 0, 1, 1], [1, 0], 1, [0, 1, 2, 6, 8])]
        R = [(3, 1, [0, 1, 0], [0]), (3, 2, [0, 1, 0], [0, 1]), (4, 1, [0, 1, 0, 1], [0]), (4, 2, [0, 1, 0, 1], [1, 0]),
             (5, 1, [0, 1, 0, 1, 0], [0]), (3, 1, [0, 0, 1], [1])]
        P = [(3, 1, [0, 1, 0], [0], 1), (4, 2, [0, 1, 0, 1], [0, 1], 1), (4, 1, [0, 1, 1, 0], [1], 2), (5, 2, [0, 1, 0, 1, 0], [0, 1], 2)]
    for item in L:
        ntr, nv, ltr, lv, it = item[:5]
        c = dict(kind="learn", ntr=ntr, nv=nv, ltr=ltr, lv=lv, iters=it, weight=(ntr + nv) ** (ntr + nv) * it, deadline_s=1500)
        if len(item) > 5:
            c["fixed_train"] = item[5]
            c["weight"] = 2000
        cfgs.append(c)
    for ntr, nv, ltr, lv in R:
        cfgs.append(dict(kind="relevance", ntr=ntr, nv=nv, ltr=ltr, lv=lv, weight=(ntr + nv) ** (ntr + nv)))
    for ntr, nv, ltr, lv, it in P:
        cfgs.append(dict(kind="prune", ntr=ntr, nv=nv, ltr=ltr, lv=lv, iters=it, weight=(ntr + nv) ** (ntr + nv) * it))
    return cfgs


def signature(prop, cfg, viol):
    from .driver import strip_idx
    return "%s:%s:%s" % (prop, cfg.get("kind"), strip_idx(viol["name"]))


def reproduces(viol, rr):
    """a 'raises' counterexample reproduces only if the real code raises the same exception type"""
    if not rr.get("ok") or not rr.get("violated"):
        return False
    name = viol["name"]
    if name.startswith("learn-does-not-raise:"):
        etype = name.split(":")[1].split("@")[0]
        return "learn-does-not-raise" in rr["violated"] and str(rr["obs"].get("error", "")).startswith(etype)
    from .driver import strip_idx
    return any(strip_idx(b) == strip_idx(name) for b in rr["violated"])


def describe(v, tier):
    v.bounds = dict(learn="train<=3, validation<=2, iterations<=2 (quick) / train<=4, iterations<=3 (thorough); every random swap choice (the RNG draw is a symbolic real, forked over its integer part)",
                    relevance="train<=4 (quick) / <=5 (thorough), 1-2 queries", prune="train<=4 / <=5, 1-2 iterations",
                    labels="fixed label vectors per configuration (listed in the evidence samples); weights symbolic")
    v.assumptions = ["features carry sample identity (one tag per row), the metric is an arbitrary symmetric table W with zero diagonal",
                     "np.random.uniform(low, high, size) returns arbitrary reals in [low, high)",
                     "numpy 2.5.3 scalar-conversion rules (int() of a 1-d array raises; a 1-element array does not fit a scalar slot)",
                     "prune raising because the retained set has a single class is outside the statement"]
    v.outside = ["more than 5 training samples, more than 3 iterations"]
    v.stubs = ["np.random.uniform -> nondeterministic stub", "numpy -> symx.symnp (view/copy aliasing as in numpy)", "copy.deepcopy real"]
