"""k-NN graph / density / clustering / prediction harnesses: C12, C13, C14, C09, C04 (KNN part), C16."""
from __future__ import annotations

import itertools

import z3

from symx import core, symnp, symmath
from symx.core import to_real, to_int, rv, SymReal, SymInt
from . import common, models
from .models import zmax, zmin, zmax_list, zmin_list, NIL

MAX_DENSITY = 1000
EPS = 1e-20


def D_matrix(eng, rows, cols, name="d", symmetric=False):
    return models.sym_matrix(eng, rows, cols, symmetric=symmetric, diag="free", name=name)


def build_knn_graph(tw, branch, n, D, labels=None, idx=None):
    """a fresh KNNSubgraph over n samples whose distances are D[i][j] (not assumed symmetric); idx: the rows of D
    the samples stand for (default 0..n-1)"""
    KNN = tw.mod("opfython.subgraphs.knn").KNNSubgraph
    X, Y, I = models.data_for(branch, n, labels, idx=idx)
    g = KNN(X, Y, I)
    if branch == "pre":
        args = (None, True, symnp.SArr.from_list(D))
    else:
        args = (models.table_metric(D), False, None)
    return g, args


# ---------------------------------------------------------------------------
# C12 (A): create_arcs

def arcs_post(eng, cfg, g, D, k, maxd, info, tag=""):
    n = g.n_nodes
    rows = cfg.get("idx") or list(range(n))
    Dz = [[to_real(D[rows[i]][rows[j]]) for j in range(n)] for i in range(n)]
    want = min(k, n - 1)
    allmax = []
    okshape = True
    for i in range(n):
        adj = [core.sym_trunc(a) if core.is_sym(a) else int(a) for a in g.nodes[i].adjacency]
        good = (len(adj) == want and all(isinstance(a, int) for a in adj) and len(set(adj)) == len(adj)
                and all(0 <= a < n and a != i for a in adj))
        eng.check(tag + "adjacency-has-min(k,n-1)-distinct-others[%d]" % i, good, info)
        if not good:
            okshape = False
            continue
        for a in range(len(adj) - 1):
            eng.check(tag + "neighbours-ascending[%d,%d]" % (i, a), Dz[i][adj[a]] <= Dz[i][adj[a + 1]], info)
        if adj:
            for j in range(n):
                if j != i and j not in adj:
                    eng.check(tag + "no-excluded-sample-closer[%d,%d]" % (i, j), Dz[i][j] >= Dz[i][adj[-1]], info)
            eng.check(tag + "radius-is-largest[%d]" % i, to_real(g.nodes[i].radius) == Dz[i][adj[-1]], info)
            allmax.append(Dz[i][adj[-1]])
    if not okshape:
        return
    if not isinstance(maxd, symnp.SArr) or maxd.shape != (k,):
        eng.check(tag + "max-distances-shape", False, info)
        return
    for l in range(k):
        if l < want:
            tm = zmax_list([Dz[i][int(g.nodes[i].adjacency[l])] for i in range(n)])
            # the scan starts from 0.0: equal to the true maximum because distances are >= 0
            eng.check(tag + "per-rank-maximum[%d]" % l, to_real(maxd._get((l,))) == tm, info)
        else:
            eng.check(tag + "per-rank-maximum-unused[%d]" % l, to_real(maxd._get((l,))) == 0, info)
    if allmax:
        tm = zmax_list(allmax)
        eng.check(tag + "density-bound", to_real(g.density) == z3.If(tm < rv(0.00001), z3.RealVal(1), tm), info)


def make_arcs_harness(cfg, tw):
    n, k, branch = cfg["n"], cfg["k"], cfg["branch"]
    k1 = cfg.get("k1")           # optional earlier call (history of two calls)

    def harness():
        eng = core.engine()
        rows = cfg.get("idx")
        N = (max(rows) + 1) if rows else n
        D = D_matrix(eng, N, N)
        g, args = build_knn_graph(tw, branch, n, D, idx=rows)
        out = dict(D=D, g=g)
        if k1 is not None:
            g.create_arcs(k1, *args)
            g.destroy_arcs()
        out["maxd"] = g.create_arcs(k, *args)
        return out
    return harness


def arcs_payload(eng, m, cfg, out):
    Dv = models.floats_of(models.eval_matrix(eng, m, out["D"]))
    if Dv is None:
        return None
    return dict(kind="knn_arcs", cfg=cfg, D=Dv)


# ---------------------------------------------------------------------------
# C12 (B): calculate_pdf from an injected arc state;  (C): eliminate_maxima_height

def inject_adjacency(g, pattern, k):
    n = g.n_nodes
    for i in range(n):
        others = [j for j in range(n) if j != i]
        if pattern == "next":
            adj = [(i + 1 + t) % n for t in range(n - 1)][:k]
        else:
            adj = list(reversed(others))[:k]
        g.nodes[i].adjacency = [float(a) for a in adj]      # create_arcs stores indices as floats


def make_pdf_harness(cfg, tw):
    n, k, branch = cfg["n"], cfg["k"], cfg["branch"]

    def harness():
        eng = core.engine()
        D = D_matrix(eng, n, n)
        g, args = build_knn_graph(tw, branch, n, D)
        inject_adjacency(g, cfg.get("pattern", "next"), k)
        dens = eng.real("bound")
        eng.assume(z3.And(dens.e > 0, dens.e < models.fmax()))
        g.density = dens
        g.calculate_pdf(k, *args)
        return dict(D=D, g=g, bound=dens)
    return harness


def pdf_post(eng, cfg, out, info):
    g, D = out["g"], out["D"]
    n, k = cfg["n"], cfg["k"]
    const = to_real(out["bound"]) * 2 / 9
    eng.check("constant-is-2/9-of-bound", to_real(g.constant) == const, info)
    raw = []
    for i in range(n):
        adj = [int(a) for a in g.nodes[i].adjacency[:k]]
        terms = [symmath.EXP(z3.simplify(-to_real(D[i][j]) / const)) for j in adj]
        raw.append(z3.Sum(terms) / (k + 1))
    mn, mx = zmin_list(raw), zmax_list(raw)
    eng.check("min-density-is-true-minimum", to_real(g.min_density) == mn, info)
    eng.check("max-density-is-true-maximum", to_real(g.max_density) == mx, info)
    for i in range(n):
        d = to_real(g.nodes[i].density)
        eng.check("density-affine-map[%d]" % i,
                  z3.If(mn == mx, d == MAX_DENSITY, d * (mx - mn) == (MAX_DENSITY - 1) * (raw[i] - mn) + (mx - mn)), info)
        eng.check("density-range[%d]" % i, z3.And(d >= 1, d <= MAX_DENSITY), info)
        eng.check("min-maps-to-1-max-to-MAX[%d]" % i,
                  z3.Implies(mn != mx, z3.And(z3.Implies(raw[i] == mn, d == 1), z3.Implies(raw[i] == mx, d == MAX_DENSITY))), info)
        eng.check("initial-cost-is-density-minus-1[%d]" % i, to_real(g.nodes[i].cost) == d - 1, info)
        for j in range(i + 1, n):
            dj = to_real(g.nodes[j].density)
            eng.check("order-preserving[%d,%d]" % (i, j), z3.And(z3.Implies(raw[i] < raw[j], d < dj),
                                                                 z3.Implies(raw[i] == raw[j], d == dj)), info)


def pdf_payload(eng, m, cfg, out):
    Dv = [[common.fraction_to_float(x) for x in r] for r in models.eval_matrix(eng, m, out["D"])]
    return dict(kind="knn_pdf", cfg=cfg, D=Dv, bound=common.fraction_to_float(eng.eval_model(m, out["bound"])))


def make_emh_harness(cfg, tw):
    n = cfg["n"]

    def harness():
        eng = core.engine()
        D = [[0.0] * n for _ in range(n)]
        g, args = build_knn_graph(tw, "fn", n, D)
        dens = [eng.real("rho%d" % i) for i in range(n)]
        cost = [eng.real("c%d" % i) for i in range(n)]
        h = eng.real("h")
        for i in range(n):
            g.nodes[i].density = dens[i]
            g.nodes[i].cost = cost[i]
        g.eliminate_maxima_height(h)
        return dict(g=g, dens=dens, cost=cost, h=h)
    return harness


def emh_post(eng, cfg, out, info):
    g = out["g"]
    h = to_real(out["h"])
    for i in range(cfg["n"]):
        d, c0 = to_real(out["dens"][i]), to_real(out["cost"][i])
        c = to_real(g.nodes[i].cost)
        eng.check("eliminate-maxima[%d]" % i, c == z3.If(h > 0, zmax(d - h, z3.RealVal(0)), c0), info)


# ---------------------------------------------------------------------------
# C13 / C04-KNN: clustering from an arbitrary clean k-NN graph state

def make_cluster_harness(cfg, tw):
    n, k, model = cfg["n"], cfg["k"], cfg["model"]
    force = cfg.get("force", False)
    K = cfg.get("K", 2)
    knn_mod = tw.mod("opfython.models.knn_supervised")
    uns_mod = tw.mod("opfython.models.unsupervised")

    def harness():
        eng = core.engine()
        rows = cfg.get("idx")         # sample identifiers that differ from positions (I_train != arange)
        M = (max(rows) + 1) if rows else n
        D = [[0.0] * M for _ in range(M)]
        labels = models.sym_labels(eng, n, K, two_classes=False)
        if model == "knn":
            opf = knn_mod.KNNSupervisedOPF(max_k=max(k, 1))
        else:
            opf = uns_mod.UnsupervisedOPF(min_k=1, max_k=max(k, 1))
        g, args = build_knn_graph(tw, "pre" if rows else "fn", n, D, labels, idx=rows)
        opf.subgraph = g
        dens = [eng.real("rho%d" % i) for i in range(n)]
        eng.assume(z3.And([z3.And(x.e >= 1, x.e <= MAX_DENSITY) for x in dens]))
        adjs = []
        for i in range(n):
            g.nodes[i].density = dens[i]
            g.nodes[i].cost = dens[i] - 1
            others = [j for j in range(n) if j != i]
            # every ordered choice of k distinct non-self neighbours
            perms = list(itertools.permutations(others, k))
            adj = list(perms[eng.choose(len(perms), "adj%d" % i)])
            adjs.append(adj)
            g.nodes[i].adjacency = [float(a) for a in adj]
        if model == "knn":
            opf._clustering(force_prototype=force)
        else:
            opf._clustering(k)
            if cfg.get("propagate"):
                opf.propagate_labels()
        return dict(opf=opf, g=g, dens=dens, labels=labels, adjs=adjs)
    return harness


def make_e2e_harness(cfg, tw):
    """the real fit() end to end (arc creation for every candidate k, pdf, validation clusterings, final
    clustering) on a symbolic distance table: histories of several clusterings on one graph are covered"""
    n, nv, model, max_k = cfg["n"], cfg.get("nv", 0), cfg["model"], cfg["max_k"]
    labels, vlabels = cfg["labels"], cfg.get("vlabels", [])
    knn_mod = tw.mod("opfython.models.knn_supervised")
    uns_mod = tw.mod("opfython.models.unsupervised")
    N = n + nv

    def harness():
        eng = core.engine()
        symmath.LEVEL = "full"
        D = models.sym_matrix(eng, N, N, symmetric=cfg.get("symmetric", True), diag="zero", name="d")
        off = [to_real(D[i][j]) for i in range(N) for j in range(N) if i != j]
        eng.assume(z3.And([z3.And(t > rv(0.001), t <= 1000) for t in off]))
        X = symnp.SArr.from_list([[float(i)] for i in range(n)])
        Y = symnp.SArr.from_list(list(labels), dtype="i")
        scored = []
        if model == "knn":
            opf = knn_mod.KNNSupervisedOPF(max_k=max_k)
            Yv = symnp.SArr.from_list(list(vlabels), dtype="i")
            if cfg.get("branch") == "pre":
                # pre-computed table over the training rows; the validation samples are rows cfg["ival"] of it
                opf.pre_computed_distance = True
                opf.pre_distances = symnp.SArr.from_list([r[:n] for r in D[:n]])
                X = symnp.zeros((n, 1))
                I = symnp.SArr.from_list(list(range(n)), dtype="i")
                Xv = symnp.zeros((nv, 1))
                Iv = symnp.SArr.from_list(list(cfg["ival"]), dtype="i")
            else:
                opf.distance_fn = models.table_metric(D)
                Xv = symnp.SArr.from_list([[float(n + i)] for i in range(nv)])
                I = Iv = None
            # what each candidate k is scored on, judged independently of the arguments the code hands to the
            # criterion: the candidate model's own predictions for the validation samples (with their identifiers)
            real_acc = knn_mod.g.opf_accuracy

            def acc_spy(a1, a2):
                truth = knn_mod.KNNSupervisedOPF.predict(opf, Xv, Iv)
                scored.append(dict(k=opf.subgraph.best_k, labels=a1, preds=a2, truth=truth, acc=real_acc(Yv, truth)))
                return real_acc(a1, a2)
            knn_mod.g.opf_accuracy = acc_spy
            try:
                opf.fit(X, Y, Xv, Yv, I, Iv)
            finally:
                knn_mod.g.opf_accuracy = real_acc
        else:
            opf = uns_mod.UnsupervisedOPF(min_k=1, max_k=max_k)
            opf.distance_fn = models.table_metric(D)
            opf.fit(X, Y)
            if cfg.get("propagate"):
                opf.propagate_labels()
        g = opf.subgraph
        return dict(opf=opf, g=g, D=D, dens=[nd.density for nd in g.nodes], labels=list(labels),
                    adjs=[[int(a) for a in nd.adjacency] for nd in g.nodes], scored=scored)
    return harness


# ---------------------------------------------------------------------------
# C07: a model object that was fitted before is fitted again -- same result as a never-used object

def _mk_model(cfg, tw, D):
    model = cfg["model"]
    if model == "uns":
        o = tw.mod("opfython.models.unsupervised").UnsupervisedOPF(min_k=1, max_k=cfg["max_k"])
    elif model == "knn":
        o = tw.mod("opfython.models.knn_supervised").KNNSupervisedOPF(max_k=cfg["max_k"])
    elif model == "semi":
        o = tw.mod("opfython.models.semi_supervised").SemiSupervisedOPF()
    else:
        o = tw.mod("opfython.models.supervised").SupervisedOPF()
    o.distance_fn = models.table_metric(D)
    return o


def _fit_rows(o, cfg, rows, labels):
    X = symnp.SArr.from_list([[float(i)] for i in rows])
    Y = symnp.SArr.from_list([labels[i] for i in rows], dtype="i")
    if cfg["model"] == "knn":
        o.fit(X, Y, X, Y)
    elif cfg["model"] == "semi":      # the last row is the unlabeled sample
        o.fit(symnp.SArr.from_list([[float(i)] for i in rows[:-1]]), symnp.SArr.from_list([labels[i] for i in rows[:-1]], dtype="i"),
              symnp.SArr.from_list([[float(i)] for i in rows[-1:]]))
    else:
        o.fit(X, Y)


def _state(o, model):
    g = o.subgraph
    s = dict(cost=[nd.cost for nd in g.nodes], pred=[nd.pred for nd in g.nodes], plab=[nd.predicted_label for nd in g.nodes],
             status=[nd.status for nd in g.nodes], order=list(g.idx_nodes)[-g.n_nodes:], n=g.n_nodes)
    if model not in ("sup", "semi"):
        s.update(clus=[nd.cluster_label for nd in g.nodes], root=[nd.root for nd in g.nodes], dens=[nd.density for nd in g.nodes],
                 best_k=g.best_k, constant=g.constant, mind=g.min_density, maxd=g.max_density)
    if model == "uns":
        s["n_clusters"] = g.n_clusters
    return s


def make_refit_harness(cfg, tw):
    n1, n2 = cfg["n1"], cfg["n2"]
    labels = cfg["labels"]

    def harness():
        eng = core.engine()
        symmath.LEVEL = "full"
        N = max(n1, n2)
        mid = cfg.get("mid_predict", False)   # the earlier life includes a prediction; the final predictions are compared too
        M = N + 1 if mid else N
        D = models.sym_matrix(eng, M, M, symmetric=True, diag="zero", name="d")
        off = [to_real(D[i][j]) for i in range(M) for j in range(M) if i != j]
        eng.assume(z3.And([z3.And(t > rv(0.001), t <= 1000) for t in off]))
        Xq = symnp.SArr.from_list([[float(N)]])
        used = _mk_model(cfg, tw, D)
        # earlier fit on other data (with mid_predict: the same rows rotated by one, so that labeled/unlabeled roles differ)
        _fit_rows(used, cfg, [(i + 1) % n1 for i in range(n1)] if mid else list(range(n1)), labels)
        if mid:
            used.predict(Xq)
        _fit_rows(used, cfg, list(range(n2)), labels)
        fresh = _mk_model(cfg, tw, D)
        _fit_rows(fresh, cfg, list(range(n2)), labels)
        su, sf = _state(used, cfg["model"]), _state(fresh, cfg["model"])
        if mid:
            su["prediction"] = list(used.predict(Xq))
            sf["prediction"] = list(fresh.predict(Xq))
        return dict(D=D, used=su, fresh=sf)
    return harness


def refit_post(eng, cfg, out, info):
    a, b = out["used"], out["fresh"]
    for key in b:
        x, y = a[key], b[key]
        if isinstance(y, list):
            ok = len(x) == len(y)
            eqs = [core.sym_eq(p, q) for p, q in zip(x, y)] if ok else [False]
        else:
            eqs = [core.sym_eq(x, y)]
        eng.check("refit-equals-fit-of-a-never-used-model:%s" % key,
                  z3.And([core.to_bool(e) if not isinstance(e, bool) else z3.BoolVal(e) for e in eqs] or [z3.BoolVal(True)]), info)


def refit_payload(eng, m, cfg, out):
    Dv = [[common.fraction_to_float(x) for x in r] for r in models.eval_matrix(eng, m, out["D"])]
    return dict(kind="knn_refit", cfg=cfg, D=Dv)


def e2e_payload(eng, m, cfg, out):
    Dv = [[common.fraction_to_float(x) for x in r] for r in models.eval_matrix(eng, m, out["D"])]
    return dict(kind="knn_e2e", cfg=cfg, D=Dv)


def e2e_post(eng, cfg, out, info):
    g = out["g"]
    c2 = dict(cfg, n=cfg["n"], k=g.best_k, force=(cfg["model"] == "knn"), e2e=True)
    cluster_post(eng, c2, out, info)
    scored = out.get("scored") or []
    if cfg["model"] == "knn":
        vl = list(cfg.get("vlabels", []))
        eng.check("every-candidate-k-is-scored-once", [sc["k"] for sc in scored] == list(range(1, cfg["max_k"] + 1)), info)
        for sc in scored:
            la = sc["labels"].flat() if isinstance(sc["labels"], symnp.SArr) else list(sc["labels"])
            pa = sc["preds"].flat() if isinstance(sc["preds"], symnp.SArr) else list(sc["preds"])
            ta = sc["truth"].flat() if isinstance(sc["truth"], symnp.SArr) else list(sc["truth"])
            same_l = len(la) == len(vl) and all(core.sym_eq(a, b) is True or (not core.is_sym(a) and a == b) for a, b in zip(la, vl))
            eng.check("scored-against-the-validation-labels[k%d]" % sc["k"], bool(same_l), info)
            if len(pa) != len(ta):
                eng.check("scored-predictions-are-the-candidate's-validation-predictions[k%d]" % sc["k"], False, info)
                continue
            eqs = [core.sym_eq(a, b) for a, b in zip(pa, ta)]
            eng.check("scored-predictions-are-the-candidate's-validation-predictions[k%d]" % sc["k"],
                      z3.And([core.to_bool(x) if not isinstance(x, bool) else z3.BoolVal(x) for x in eqs] or [z3.BoolVal(True)]), info)
        if scored and [sc["k"] for sc in scored] == list(range(1, cfg["max_k"] + 1)) and isinstance(g.best_k, int):
            accs = [to_real(sc["acc"]) for sc in scored]
            b = g.best_k - 1
            if 0 <= b < len(accs):
                eng.check("best-k-is-the-least-argmax-of-validation-accuracy",
                          z3.And([accs[b] >= a for a in accs] + [accs[j] < accs[b] for j in range(b)]), info)
            else:
                eng.check("best-k-is-the-least-argmax-of-validation-accuracy", False, info)


def cluster_post(eng, cfg, out, info):
    g = out["g"]
    n, k, model = cfg["n"], cfg["k"], cfg["model"]
    dens = [to_real(x) for x in out["dens"]]
    lab = [to_int(x) for x in out["labels"]]
    nodes = g.nodes
    pred = [nd.pred for nd in nodes]
    okp = all(isinstance(p, int) for p in pred)
    eng.check("pred-links-concrete", okp, info)
    if not okp:
        return
    roots = []
    for i in range(n):
        ch = models.chain(pred, i, n)
        eng.check("chain-acyclic[%d]" % i, ch is not None, info)
        if ch is None:
            return
        r = ch[-1]
        roots.append(r)
        eng.check("recorded-root-is-chain-root[%d]" % i, nodes[i].root == r, info)
    rootset = sorted(set(roots))
    for i in range(n):
        r = roots[i]
        c = to_real(nodes[i].cost)
        if model == "uns":
            eng.check("cluster-id-equals-root's[%d]" % i, nodes[i].cluster_label == nodes[r].cluster_label, info)
            if cfg.get("propagate"):
                eng.check("propagated-label-is-root's-true-label[%d]" % i, to_int(nodes[i].predicted_label) == lab[r], info)
        else:
            eng.check("assigned-label-is-root's-true-label[%d]" % i, to_int(nodes[i].predicted_label) == lab[r], info)
            if cfg.get("force"):
                eng.check("force-prototype-keeps-own-label[%d]" % i, to_int(nodes[i].predicted_label) == lab[i], info)
        if pred[i] == NIL:
            eng.check("root-cost-is-density[%d]" % i, c == dens[i], info)
        else:
            p = pred[i]
            npl = nodes[p].n_plateaus if model == "uns" else len(nodes[p].adjacency)
            lim = (npl + k) if model == "uns" else len(nodes[p].adjacency)
            adjp = [int(a) for a in nodes[p].adjacency[:lim]]
            if not (cfg.get("e2e") and model == "knn"):
                eng.check("sample-was-neighbour-of-its-predecessor[%d]" % i, i in adjp, info)
            else:
                # KNN fit destroys the arcs before returning: judge the relation from the distances themselves.
                # i is a k-neighbour of p iff fewer than k other samples are strictly closer to p; a plateau arc
                # adds the reverse direction between samples of equal density
                D = out["D"]

                def near(a, b):
                    closer = [z3.If(to_real(D[a][j]) < to_real(D[a][b]), 1, 0) for j in range(n) if j not in (a, b)]
                    return (z3.Sum(closer) <= k - 1) if closer else z3.BoolVal(True)
                eng.check("sample-was-neighbour-of-its-predecessor[%d]" % i,
                          z3.Or(near(p, i), z3.And(near(i, p), dens[i] == dens[p])), info)
            eng.check("cost-is-min(cost(pred),density)[%d]" % i, c == zmin(to_real(nodes[p].cost), dens[i]), info)
            eng.check("cost-above-density-minus-1[%d]" % i, c > dens[i] - 1, info)
        eng.check("density-below-root's-plus-1[%d]" % i, dens[i] < dens[r] + 1, info)
    if model == "uns":
        eng.check("n_clusters-is-number-of-roots", g.n_clusters == len(rootset), info)
        ids = sorted(nodes[r].cluster_label for r in rootset)
        eng.check("root-ids-are-0..n_clusters-1", ids == list(range(len(rootset))), info)
    order = list(g.idx_nodes)
    if cfg.get("e2e"):
        # the conquest order list accumulates over the candidate clusterings of fit(); the statement is about
        # the final one: its n entries are a permutation
        order = order[-n:]
    eng.check("every-sample-conquered-once", sorted(order) == list(range(n)), info)


def cluster_payload(eng, m, cfg, out):
    ev = lambda x: common.fraction_to_float(eng.eval_model(m, x))
    return dict(kind="knn_cluster", cfg=cfg, dens=[ev(x) for x in out["dens"]], labels=[ev(x) for x in out["labels"]],
                adjs=out["adjs"])


# ---------------------------------------------------------------------------
# C14 / C09: prediction from an injected fitted state

def make_predict_harness(cfg, tw):
    n, k, model, branch = cfg["n"], cfg["k"], cfg["model"], cfg["branch"]
    nq = cfg["nq"]                 # distinct query samples
    batches = cfg["batches"]       # list of batches, each a list of query ids (ints < nq)
    knn_mod = tw.mod("opfython.models.knn_supervised")
    uns_mod = tw.mod("opfython.models.unsupervised")
    sup_mod = tw.mod("opfython.models.supervised")

    rows, qrows = _pred_rows(cfg)

    def harness():
        eng = core.engine()
        N = max(rows + qrows) + 1
        # T[qrows[q]][rows[t]]: distance between query q and training sample t, stored in a full (N x N) table so
        # that both weight branches address it the way the real code does (rows/qrows default to 0..n-1, n..n+nq-1;
        # cfg["idx"]/cfg["qidx"]: the samples stand for permuted rows of a larger table)
        T = models.sym_matrix(eng, N, N, symmetric=False, diag="free", name="t")
        cost = [eng.real("cost%d" % i) for i in range(n)]
        plab = [eng.int("pl%d" % i, 0, 2) for i in range(n)]
        clus = [eng.int("cl%d" % i, 0, n - 1) for i in range(n)]
        fresh = None
        if model == "sup":
            eng.assume(z3.And([z3.And(c.e >= 0, c.e < models.fmax()) for c in cost]))
            # conquest order: every permutation with non-decreasing cost (what C01 establishes)
            perms = list(itertools.permutations(range(n)))
            order = list(perms[eng.choose(len(perms), "order")])
            eng.assume(z3.And([cost[order[a]].e <= cost[order[a + 1]].e for a in range(n - 1)] or [True]))

            def build_sup(rel=None):
                o = models.build_opf(sup_mod.SupervisedOPF, branch, T)
                X, Y, I = models.data_for(branch, n, [0] * n, idx=rows)
                gg = tw.mod("opfython.core").Subgraph(X, Y, I)
                gg.idx_nodes = list(order)
                for i in range(n):
                    gg.nodes[i].cost = cost[i]
                    gg.nodes[i].predicted_label = plab[i]
                    if rel is not None:
                        gg.nodes[i].relevant = rel[i]
                gg.trained = True
                o.subgraph = gg
                return o, gg
            st = dict(cost=cost, plab=plab, order=order)
            rel = None
            if cfg.get("symrel"):
                # "after any number of earlier predict calls": the only state those calls leave behind in a
                # supervised model is the relevance mark of each node -- here arbitrary (over-approximates every
                # history); the same query on a never-used model (all marks clear) must get the same label
                rel = [eng.int("rel%d" % i, 0, 1) for i in range(n)]
                st["rel"] = rel
                fresh = []
                for q in range(nq):
                    o2, _ = build_sup()
                    Xq, _, Iq = models.data_for(branch, 1, None, idx=[qrows[q]])
                    fresh.append(o2.predict(Xq, Iq))
            opf, g = build_sup(rel)
        else:
            cls = knn_mod.KNNSupervisedOPF if model == "knn" else uns_mod.UnsupervisedOPF
            kw = dict(max_k=k) if model == "knn" else dict(min_k=1, max_k=k)
            opf = models.build_opf(cls, branch, T, **kw)
            g, _ = build_knn_graph(tw, branch, n, T, [0] * n, idx=rows)
            const = eng.real("const")
            mind, maxd = eng.real("mind"), eng.real("maxd")
            eng.assume(z3.And(const.e > 0, const.e <= 1000000, mind.e <= maxd.e, mind.e >= 0, maxd.e <= 1))
            eng.assume(z3.And([z3.And(c.e >= 0, c.e <= MAX_DENSITY) for c in cost]))
            g.best_k = k
            g.constant = const
            g.min_density = mind
            g.max_density = maxd
            for i in range(n):
                g.nodes[i].cost = cost[i]
                g.nodes[i].predicted_label = plab[i]
                g.nodes[i].cluster_label = clus[i]
            g.trained = True
            opf.subgraph = g
            st = dict(cost=cost, plab=plab, clus=clus, const=const, mind=mind, maxd=maxd)
        results = []
        snaps = [snapshot(opf, model)]
        for b in batches:
            Xq, _, Iq = models.data_for(branch, len(b), None, idx=[qrows[q] for q in b])
            results.append(opf.predict(Xq, Iq))
            snaps.append(snapshot(opf, model))
        return dict(T=T, st=st, results=results, snaps=snaps, opf=opf, fresh=fresh)
    return harness


def _pred_rows(cfg):
    n, nq = cfg["n"], cfg["nq"]
    return list(cfg.get("idx") or range(n)), list(cfg.get("qidx") or range(n, n + nq))


def snapshot(opf, model):
    g = opf.subgraph
    s = dict(cost=[nd.cost for nd in g.nodes], plab=[nd.predicted_label for nd in g.nodes],
             clus=[nd.cluster_label for nd in g.nodes], order=list(g.idx_nodes), n=g.n_nodes)
    if model != "sup":
        s.update(best_k=g.best_k, constant=g.constant, mind=g.min_density, maxd=g.max_density)
    return s


def predict_rule_terms(cfg, out, q):
    """oracle for one query q: list of (label, cluster) alternatives as z3 constraints over the outputs"""
    n, k, model = cfg["n"], cfg["k"], cfg["model"]
    T, st = out["T"], out["st"]
    rows, qrows = _pred_rows(cfg)
    d = [to_real(T[qrows[q]][rows[t]]) for t in range(n)]
    cost = [to_real(c) for c in st["cost"]]
    const, mind, maxd = to_real(st["const"]), to_real(st["mind"]), to_real(st["maxd"])
    kk = min(k, n)
    alts = []
    for N in itertools.combinations(range(n), kk):
        rest = [t for t in range(n) if t not in N]
        valid = z3.And([d[t] >= d[s] for t in rest for s in N]) if rest else z3.BoolVal(True)
        raw = z3.Sum([symmath.EXP(z3.simplify(-d[t] / const)) for t in N]) / k
        dens = (MAX_DENSITY - 1) * (raw - mind) / (maxd - mind + rv(EPS)) + 1
        val = {t: zmin(cost[t], dens) for t in N}
        for t in N:
            best = z3.And([val[t] >= val[s] for s in N if s != t]) if len(N) > 1 else z3.BoolVal(True)
            alts.append((z3.And(valid, best), t))
    return alts


def predict_post(eng, cfg, out, info):
    n, k, model = cfg["n"], cfg["k"], cfg["model"]
    prop = cfg["prop"]
    batches = cfg["batches"]
    st = out["st"]
    plab = [to_int(x) for x in st["plab"]]
    res = out["results"]

    def label_of(bi, pos):
        r = res[bi]
        if model == "uns":
            return to_int(r[0][pos]), to_int(r[1][pos])
        return to_int(r[pos]), None

    if prop == "C03":
        # state-injected supervised forest: returned label is the label of an exhaustive minimiser
        T = out["T"]
        rows, qrows = _pred_rows(cfg)
        cost = [to_real(c) for c in st["cost"]]
        for bi, b in enumerate(batches):
            for pos, q in enumerate(b):
                lab, _ = label_of(bi, pos)
                d = [to_real(T[rows[t]][qrows[q]]) for t in range(n)]
                val = [zmax(cost[t], d[t]) for t in range(n)]
                alts = [z3.And([val[t] <= val[s] for s in range(n) if s != t] + [lab == plab[t]]) for t in range(n)]
                eng.check("prediction-is-an-exhaustive-minimiser[b%d,p%d]" % (bi, pos), z3.Or(alts), info)
        return
    if prop == "C14":
        clus = [to_int(x) for x in st["clus"]]
        for bi, b in enumerate(batches):
            for pos, q in enumerate(b):
                lab, cl = label_of(bi, pos)
                alts = []
                for cond, t in predict_rule_terms(cfg, out, q):
                    c = z3.And(cond, lab == plab[t])
                    if cl is not None:
                        c = z3.And(c, cl == clus[t])
                    alts.append(c)
                eng.check("prediction-follows-knn-max-min-rule[b%d,p%d]" % (bi, pos), z3.Or(alts), info)
    else:  # C09: all occurrences of the same query sample agree; the model is not modified
        first = {}
        for bi, b in enumerate(batches):
            for pos, q in enumerate(b):
                lab, cl = label_of(bi, pos)
                if q not in first:
                    first[q] = (lab, cl, bi, pos)
                    if out.get("fresh") is not None:
                        eng.check("same-label-as-on-a-never-used-model[q%d]" % q, lab == to_int(out["fresh"][q][0]), info)
                else:
                    l0, c0, b0, p0 = first[q]
                    eng.check("same-label-at-any-batch-position[b%d.p%d vs b%d.p%d]" % (b0, p0, bi, pos), lab == l0, info)
                    if cl is not None:
                        eng.check("same-cluster-at-any-batch-position[b%d.p%d vs b%d.p%d]" % (b0, p0, bi, pos), cl == c0, info)
        s0 = out["snaps"][0]
        for si, s in enumerate(out["snaps"][1:]):
            same = []
            for key in s0:
                a, b = s0[key], s[key]
                if isinstance(a, list):
                    same.append(len(a) == len(b) and all(_eq(x, y) for x, y in zip(a, b)))
                else:
                    same.append(_eq(a, b))
            eng.check("predict-leaves-model-state-unchanged[%d]" % si,
                      z3.And([core.to_bool(x) if not isinstance(x, bool) else z3.BoolVal(x) for x in same]), info)


def _eq(a, b):
    r = core.sym_eq(a, b)
    return r


def predict_payload(eng, m, cfg, out):
    ev = lambda x: common.fraction_to_float(eng.eval_model(m, x))
    st = {k: ([ev(x) for x in v] if isinstance(v, list) else ev(v)) for k, v in out["st"].items()}
    T = [[ev(x) for x in r] for r in out["T"]]
    return dict(kind="knn_predict", cfg=cfg, T=T, st=st)


# ---------------------------------------------------------------------------
# C16: selection loops, criterion as an environment stub

def make_select_harness(cfg, tw):
    model = cfg["model"]
    knn_mod = tw.mod("opfython.models.knn_supervised")
    uns_mod = tw.mod("opfython.models.unsupervised")
    KNN = tw.mod("opfython.subgraphs.knn").KNNSubgraph
    gmod = tw.mod("opfython.math.general")

    def harness():
        eng = core.engine()
        calls = []
        crit = []
        saved = {}

        def patch(obj, name, fn):
            saved[(obj, name)] = getattr(obj, name)
            setattr(obj, name, fn)

        try:
            patch(KNN, "create_arcs", lambda self, k, *a, **kw: (calls.append(("arcs", k)), symnp.zeros(k))[1])
            patch(KNN, "calculate_pdf", lambda self, k, *a, **kw: calls.append(("pdf", k)))
            patch(KNN, "destroy_arcs", lambda self: calls.append(("destroy",)))
            X = symnp.zeros((2, 1))
            Y = symnp.SArr.from_list([0, 1], dtype="i")
            if model == "knn":
                max_k = cfg["max_k"]

                def acc_stub(labels, preds):
                    v = eng.real("acc%d" % len(crit))
                    eng.assume(z3.And(v.e >= 0, v.e <= 1))
                    crit.append(v)
                    return v
                patch(gmod, "opf_accuracy", acc_stub)
                opf = knn_mod.KNNSupervisedOPF(max_k=max_k)
                opf._clustering = lambda *a, **kw: calls.append(("cluster", kw.get("force_prototype", a[0] if a else False)))
                opf.predict = lambda *a, **kw: [0, 0]
                err = None
                try:
                    opf.fit(X, Y, X, Y)
                except core.Unsupported:
                    raise
                except Exception as ex:
                    err = "%s: %s" % (type(ex).__name__, ex)
                return dict(opf=opf, calls=calls, crit=crit, err=err)
            min_k, max_k = cfg["min_k"], cfg["max_k"]
            opf = uns_mod.UnsupervisedOPF(min_k=min_k, max_k=max_k)

            def cut_stub(k):
                v = eng.real("cut%d" % len(crit))
                eng.assume(z3.And(v.e >= 0, v.e <= 1000000))     # contract: 0 <= cut <= number of clusters
                crit.append(v)
                calls.append(("cut", k))
                return v
            opf._normalized_cut = cut_stub
            opf._clustering = lambda kk: calls.append(("cluster", kk))
            err = None
            try:
                opf.fit(X, Y)
            except core.Unsupported:
                raise
            except Exception as ex:
                err = "%s: %s" % (type(ex).__name__, ex)
            return dict(opf=opf, calls=calls, crit=crit, err=err)
        finally:
            for (obj, name), fn in saved.items():
                setattr(obj, name, fn)
    return harness


def select_post(eng, cfg, out, info):
    model = cfg["model"]
    crit = [to_real(c) for c in out["crit"]]
    calls = out["calls"]
    eng.check("selection-does-not-raise", out["err"] is None, info)
    if out["err"] is not None:
        return
    best = out["opf"].subgraph.best_k
    if model == "knn":
        max_k = cfg["max_k"]
        eng.check("every-candidate-evaluated", len(crit) == max_k, info)
        if len(crit) != max_k:
            return
        mx = zmax_list(crit)
        want = z3.IntVal(max_k)
        for k in range(max_k, 0, -1):
            want = z3.If(crit[k - 1] == mx, z3.IntVal(k), want)
        eng.check("best-k-is-least-argmax-of-accuracy", to_int(best) == want, info)
        tail = [c for c in calls if c[0] in ("arcs", "pdf", "cluster")][-3:]
        ok = (len(tail) == 3 and tail[0][0] == "arcs" and tail[1][0] == "pdf" and tail[2] == ("cluster", True))
        eng.check("final-model-call-sequence", ok, info)
        if ok:
            eng.check("final-arcs-use-best-k", to_int(tail[0][1]) == want, info)
            eng.check("final-pdf-uses-best-k", to_int(tail[1][1]) == want, info)
    else:
        min_k, max_k = cfg["min_k"], cfg["max_k"]
        ks = [c[1] for c in calls if c[0] == "cut"]
        m = len(ks)
        eng.check("candidates-evaluated-in-increasing-k-from-min_k", ks == list(range(min_k, min_k + m)) and m >= 1, info)
        if ks != list(range(min_k, min_k + m)) or m < 1:
            return
        # stops only after an exact zero cut (or at max_k)
        if min_k + m - 1 < max_k:
            eng.check("early-stop-only-after-zero-cut", z3.Or([c == 0 for c in crit]), info)
        for a in range(m - 1):
            eng.check("no-evaluation-after-zero-cut[%d]" % a, crit[a] != 0, info)
        mn = zmin_list(crit)
        want = z3.IntVal(ks[-1])
        for a in range(m - 1, -1, -1):
            want = z3.If(crit[a] == mn, z3.IntVal(ks[a]), want)
        eng.check("best-k-is-least-argmin-of-evaluated-cuts", to_int(best) == want, info)
        fin = [c for c in calls if c[0] in ("arcs", "pdf", "cluster")][-3:]
        ok = len(fin) == 3 and [c[0] for c in fin] == ["arcs", "pdf", "cluster"]
        eng.check("final-model-call-sequence", ok, info)
        if ok:
            for c in fin:
                eng.check("final-%s-uses-best-k" % c[0], to_int(c[1]) == want, info)


def select_payload(eng, m, cfg, out):
    ev = lambda x: common.fraction_to_float(eng.eval_model(m, x))
    return dict(kind="knn_select", cfg=cfg, crit=[ev(c) for c in out["crit"]])


# ---------------------------------------------------------------------------

# ---------------------------------------------------------------------------
# C16: the normalised cut itself, against its definition

def make_cut_harness(cfg, tw):
    n, k, branch = cfg["n"], cfg["k"], cfg["branch"]
    uns_mod = tw.mod("opfython.models.unsupervised")

    def harness():
        eng = core.engine()
        rows = cfg.get("idx")         # the samples stand for these rows of a larger distance table
        N = (max(rows) + 1) if rows else n
        D = D_matrix(eng, N, N)
        opf = models.build_opf(uns_mod.UnsupervisedOPF, branch, D, min_k=1, max_k=k)
        g, _ = build_knn_graph(tw, branch, n, D, idx=rows)
        opf.subgraph = g
        adjs, clus = [], []
        ncl = cfg.get("clusters", 2)
        for i in range(n):
            others = [j for j in range(n) if j != i]
            perms = list(itertools.permutations(others, k))
            adj = list(perms[eng.choose(len(perms), "adj%d" % i)])
            adjs.append(adj)
            g.nodes[i].adjacency = [float(a) for a in adj]
            c = eng.choose(ncl, "cl%d" % i)
            clus.append(c)
            g.nodes[i].cluster_label = c
        g.n_clusters = ncl
        cut = opf._normalized_cut(k)
        return dict(D=D, adjs=adjs, clus=clus, cut=cut, ncl=ncl)
    return harness


def cut_post(eng, cfg, out, info):
    n = cfg["n"]
    D, adjs, clus, ncl = out["D"], out["adjs"], out["clus"], out["ncl"]
    rows = cfg.get("idx") or list(range(n))
    total = z3.RealVal(0)
    for l in range(ncl):
        internal, external = z3.RealVal(0), z3.RealVal(0)
        for i in range(n):
            if clus[i] != l:
                continue
            for j in adjs[i]:
                d = to_real(D[rows[i]][rows[j]])
                w = z3.If(d > 0, 1 / d, z3.RealVal(0))
                if clus[j] == l:
                    internal = internal + w
                else:
                    external = external + w
        total = total + z3.If(internal + external > 0, external / (internal + external), z3.RealVal(0))
    eng.check("normalised-cut-matches-its-definition", to_real(out["cut"]) == total, info)
    eng.check("normalised-cut-range", z3.And(to_real(out["cut"]) >= 0, to_real(out["cut"]) <= ncl), info)


def cut_payload(eng, m, cfg, out):
    Dv = [[common.fraction_to_float(x) for x in r] for r in models.eval_matrix(eng, m, out["D"])]
    return dict(kind="knn_cut", cfg=cfg, D=Dv, adjs=out["adjs"], clus=out["clus"], ncl=out["ncl"])


KINDS = {
    "arcs": (make_arcs_harness, None, arcs_payload),
    "pdf": (make_pdf_harness, pdf_post, pdf_payload),
    "emh": (make_emh_harness, emh_post, None),
    "cluster": (make_cluster_harness, cluster_post, cluster_payload),
    "predict": (make_predict_harness, predict_post, predict_payload),
    "select": (make_select_harness, select_post, select_payload),
    "e2e": (make_e2e_harness, e2e_post, e2e_payload),
    "cut": (make_cut_harness, cut_post, cut_payload),
    "refit": (make_refit_harness, refit_post, refit_payload),
}


def run_config(cfg):
    common.bootstrap()
    tw = common.get_twin()
    kind = cfg["kind"]
    mk, post, pay = KINDS[kind]
    harness = mk(cfg, tw)

    def info_of(eng, out):
        if pay is None:
            return lambda m: dict(kind="knn_" + kind, cfg=cfg,
                                  model={str(v): str(m.eval(v, model_completion=True)) for v in eng.track_vars})
        return lambda m: pay(eng, m, cfg, out)

    def on_leaf(eng, out):
        info = info_of(eng, out)
        if kind == "arcs":
            arcs_post(eng, cfg, out["g"], out["D"], cfg["k"], out["maxd"], info)
        else:
            post(eng, cfg, out, info)

    def witness(eng, m, out):
        if kind == "predict":
            if cfg["k"] != 1 and cfg["model"] != "sup":
                return None       # for k > 1 the label may depend on the (uninterpreted) value of exp
            p = info_of(eng, out)(m)
            evv = lambda x: common.fraction_to_float(eng.eval_model(m, x))
            res = []
            for r in out["results"]:
                if cfg["model"] == "uns":
                    res.append([[evv(x) for x in r[0]], [evv(x) for x in r[1]]])
                else:
                    res.append([evv(x) for x in r])
            p["expected"] = dict(results=res)
            return p
        if kind == "select":
            if out["err"] is not None:
                return None
            p = info_of(eng, out)(m)
            p["expected"] = dict(best_k=int(out["opf"].subgraph.best_k))
            return p
        if kind not in ("arcs", "cluster"):
            return None
        p = info_of(eng, out)(m)
        if p is None:
            return None
        ev = lambda x: common.fraction_to_float(eng.eval_model(m, x))
        g = out["g"]
        if kind == "arcs":
            p["expected"] = dict(adj=[[int(a) for a in nd.adjacency] for nd in g.nodes],
                                 radius=[ev(nd.radius) for nd in g.nodes], density=ev(g.density),
                                 maxd=[ev(x) for x in out["maxd"].flat()])
        else:
            p["expected"] = dict(pred=[nd.pred for nd in g.nodes], root=[nd.root for nd in g.nodes],
                                 cost=[ev(nd.cost) for nd in g.nodes],
                                 plabel=[ev(nd.predicted_label) for nd in g.nodes],
                                 cluster=[nd.cluster_label for nd in g.nodes], order=list(g.idx_nodes))
        return p
    return common.explore(cfg, harness, twin=tw, on_leaf=on_leaf, witness_fn=witness,
                          witness_stride=cfg.get("wstride", 0), deadline_s=cfg.get("deadline_s", 1200),
                          seed=cfg.get("seed", 0), solver_timeout_ms=cfg.get("timeout_ms", 60000),
                          logic=cfg.get("logic"))
