"""Generic driver: run a property module's configurations, validate path witnesses on the real
package, replay counterexamples, classify against known findings, write evidence."""
from __future__ import annotations

import importlib
import json
import os
import re
import sys
import time

from . import common


def strip_idx(name):
    return re.sub(r"\[[^\]]*\]", "", name)


def default_signature(prop, cfg, viol):
    return "%s:%s" % (prop, strip_idx(viol["name"]))


def default_compare(w, rr):
    """witness validation: the twin's observables under the path model == the real observables"""
    if not rr.get("ok"):
        return "real code raised: %s" % rr.get("error")
    exp, obs = w["expected"], rr["obs"]
    for k, ev in exp.items():
        if ev is None:
            continue
        if k not in obs:
            continue
        if not _same(ev, obs[k]):
            return "observable %s differs: twin %r real %r" % (k, ev, obs[k])
    return None


def _same(a, b):
    if isinstance(a, list) and isinstance(b, list):
        return len(a) == len(b) and all(_same(x, y) for x, y in zip(a, b))
    if isinstance(a, (int, float)) and isinstance(b, (int, float)):
        if a == b:
            return True
        return abs(a - b) <= 1e-9 * max(1.0, abs(a), abs(b))
    return a == b


def run(prop, tier, seed, modname=None):
    common.bootstrap()
    mod = importlib.import_module(modname or "checks.%s" % prop.lower())
    v = common.Verdict(prop, tier, seed)
    if hasattr(mod, "describe"):
        mod.describe(v, tier)
    gate = getattr(mod, "conformance", None)
    if gate is not None:
        err = gate(v, tier, seed)
        if err:
            print("HARNESS-ERROR: conformance gate failed: %s" % err)
            v.harness_errors.append("conformance: " + str(err))
    cfgs = mod.configs(tier, seed)
    for c in cfgs:
        c.setdefault("seed", seed)
        c.setdefault("prop", prop)
    # biggest first
    cfgs.sort(key=lambda c: -c.get("weight", 1))
    results = common.run_parallel(mod.RUN[0], mod.RUN[1], cfgs)
    v.add_results(results)
    if hasattr(mod, "post"):
        mod.post(v, results, tier, seed)

    # ---- path witnesses: twin vs real on concrete inputs drawn from path-condition models
    wit = [w for r in results for w in r.get("witnesses", [])]
    max_w = getattr(mod, "MAX_WITNESSES", 120)
    if len(wit) > max_w:
        step = len(wit) / float(max_w)
        wit = [wit[int(i * step)] for i in range(max_w)]
    compare = getattr(mod, "compare", default_compare)
    if wit:
        resp = common.run_real(wit)
        for w, rr in zip(wit, resp):
            mm = compare(w, rr)
            if mm:
                v.trace_mismatches.append(dict(cfg=w.get("cfg"), path=w.get("path"), mismatch=mm))
            else:
                v.traces_validated += 1

    # ---- counterexamples
    sigf = getattr(mod, "signature", default_signature)
    groups = {}
    for r in results:
        for viol in r.get("violations", []):
            sig = sigf(prop, r.get("cfg"), viol)
            groups.setdefault(sig, []).append((r.get("cfg"), viol))
    reproduces = getattr(mod, "reproduces", None)
    for sig, items in sorted(groups.items()):
        # smallest configurations first: their counterexamples depend least on uninterpreted-function values
        cands = sorted([(c, vi) for c, vi in items if vi.get("info")],
                       key=lambda cv: (cv[0] or {}).get("weight", 1))[:getattr(mod, "MAX_REPLAYS", 4)]
        if not cands:
            v.unreproduced.append(dict(signature=sig, reason="no replay payload", example=items[0][1].get("name")))
            continue
        resp = common.run_real([vi["info"] for _, vi in cands])
        confirmed = False
        for (c, vi), rr in zip(cands, resp):
            if reproduces is not None:
                ok = reproduces(vi, rr)
            else:
                ok = bool(rr.get("ok")) and any(strip_idx(b) == strip_idx(vi["name"]) for b in rr.get("violated", []))
                if not ok and rr.get("ok") and rr.get("violated"):
                    ok = True  # a different clause of the same property fails on the real code
            if ok:
                payload = dict(property=prop, signature=sig, obligation=vi["name"], request=vi["info"],
                               real_result=rr, path=vi.get("path"), model=vi.get("model"))
                path = v.write_replay(payload)
                desc = "%s fails (%d symbolic counterexamples; real code: %s)" % (
                    vi["name"], len(items), (rr.get("violated") or rr.get("error") or "")[:6] if isinstance(rr.get("violated"), list) else rr.get("error"))
                v.confirmed.append((sig, path, desc))
                confirmed = True
                break
        if not confirmed:
            rec = dict(signature=sig, n=len(items), example=cands[0][1]["name"],
                       request=cands[0][1]["info"], real=resp[0])
            if getattr(mod, "UNREPRODUCED_IS_INCONCLUSIVE", False):
                # models of uninterpreted functions / the rounding over-approximation need not be realisable:
                # a candidate that does not reproduce on the real code is reported as undecided, never as a verdict
                v.inconclusive.append(dict(kind="solver counterexample not reproduced on the real code", **rec))
            else:
                v.unreproduced.append(rec)
    for r in results:
        for u in r.get("unknowns", []):
            v.inconclusive.append(dict(kind="solver answered unknown", cfg=r.get("cfg"), what=u))
    for r in results:
        if not r.get("exhaustive") and not r.get("error"):
            v.inconclusive.append(dict(kind="configuration stopped at its deadline or path budget: the remaining "
                                            "paths of this configuration are undecided", cfg=r.get("cfg"),
                                       paths_decided=r.get("stats", {}).get("paths")))
    v.inconclusive = v.inconclusive[:200]
    level = getattr(mod, "LEVEL", "model_checking")
    return v.finish(level=level, rule=getattr(mod, "RULE", None))


def replay_file(path):
    common.bootstrap()
    payload = json.load(open(path))
    rr = common.run_real([payload["request"]])[0]
    print(json.dumps(dict(property=payload["property"], signature=payload["signature"],
                          obligation=payload["obligation"], real_result=rr), indent=1, default=str))
    bad = (not rr.get("ok")) or bool(rr.get("violated"))
    if bad:
        print("VIOLATION property=%s replay=%s" % (payload["property"], path))
        return common.EXIT_VIOLATION
    print("replay: property holds on this input now")
    return common.EXIT_OK
