"""symx.loader -- the twin loader.

Re-loads $VERIF_REPO/opfython/**/*.py (default /repo) from source into fresh module
objects whose builtins carry a custom __import__ (numpy -> symx.symnp, numba -> identity
njit, math -> symx.symmath, json/struct -> contract stubs on request) and a custom
isinstance/int.  The source text is unchanged except for one AST lowering that mirrors
Numba semantics:  `e is True` / `e is False`  ->  `e == True` / `e == False`.
"""
from __future__ import annotations

import ast
import builtins
import hashlib
import os
import sys
import types

from . import core, symnp, symmath
from .core import SymReal, SymInt, SymBool

REPO = os.environ.get("VERIF_REPO", "/repo")


def sym_int(x=0, *a):
    if a:
        return int(x, *a)
    if isinstance(x, SymInt):
        return x
    if isinstance(x, (SymReal, SymBool)):
        return core.sym_trunc(x)
    if isinstance(x, symnp.SArr):
        return x.__int__()
    return int(x)


sym_int.__name__ = "int"


def sym_float(x=0.0):
    if isinstance(x, (SymReal,)):
        return x
    if isinstance(x, SymInt):
        return core.wrap(core.to_real(x))
    if isinstance(x, symnp.SArr):
        return x.__float__()
    return float(x)


sym_float.__name__ = "float"


def _mapcls(c):
    if c is sym_int:
        return int
    if c is sym_float:
        return float
    return c


def sym_isinstance(obj, cls):
    classes = tuple(_mapcls(c) for c in cls) if isinstance(cls, tuple) else (_mapcls(cls),)
    if isinstance(obj, SymReal):
        return float in classes or SymReal in classes
    if isinstance(obj, SymInt):
        return int in classes or SymInt in classes
    if isinstance(obj, SymBool):
        return bool in classes or int in classes or SymBool in classes
    return isinstance(obj, classes)


class _IdPool:
    """Model of id(): CPython only guarantees distinct ids for objects whose lifetimes overlap.  This allocator is
    legal and adversarial: it hands out the smallest free number and re-uses a number as soon as its object has
    died, so code that keys state by id() of temporaries meets the collisions the real allocator may produce."""

    def __init__(self):
        self.live = {}      # real id -> (number, weakref)
        self.free = []
        self.next = 1

    def __call__(self, obj):
        import weakref
        rid = builtins.id(obj)
        ent = self.live.get(rid)
        if ent is not None and ent[1]() is obj:
            return ent[0]
        try:
            num = min(self.free) if self.free else self.next
            wr = weakref.ref(obj, lambda _r, rid=rid, num=num: self._release(rid, num))
        except TypeError:
            return rid
        if self.free and num in self.free:
            self.free.remove(num)
        else:
            self.next += 1
        self.live[rid] = (num, wr)
        return num

    def _release(self, rid, num):
        ent = self.live.get(rid)
        if ent is not None and ent[0] == num:
            del self.live[rid]
        self.free.append(num)


def sym_abs(x):
    return abs(x)


def sym_len(x):
    return len(x)


class _NumbaStub(types.ModuleType):
    def __init__(self):
        super().__init__("numba")

        def njit(*a, **k):
            if len(a) == 1 and callable(a[0]) and not k:
                return a[0]
            return lambda f: f

        self.njit = njit
        self.jit = njit


class _NullLogger:
    def __getattr__(self, name):
        return lambda *a, **k: None


class _Lower(ast.NodeTransformer):
    """numba lowers `x is True` on a boolean to a value test; CPython compares identity."""

    def __init__(self):
        self.count = 0

    def visit_Compare(self, node):
        self.generic_visit(node)
        if len(node.ops) == 1 and isinstance(node.ops[0], (ast.Is, ast.IsNot)):
            c = node.comparators[0]
            if isinstance(c, ast.Constant) and (c.value is True or c.value is False):
                node.ops = [ast.Eq() if isinstance(node.ops[0], ast.Is) else ast.NotEq()]
                self.count += 1
        return node


class Twin:
    """A loaded twin of the opfython package."""

    def __init__(self, repo=None, extra_modules=None, ast_mutator=None, quiet=True, install=True):
        self.repo = repo or REPO
        self.root = os.path.join(self.repo, "opfython")
        self.modules = {}
        self.sha256 = {}
        self.lowered = 0
        self.extra = dict(extra_modules or {})
        self.ast_mutator = ast_mutator
        self.quiet = quiet
        self.numba = _NumbaStub()
        self.install = install
        self._saved = {}
        self.bi = dict(vars(builtins))
        self.bi["__import__"] = self._import
        self.bi["isinstance"] = sym_isinstance
        self.bi["int"] = sym_int
        self.bi["float"] = sym_float
        self.bi["open"] = self._open
        self.bi["id"] = _IdPool()
        self.entered = set()

    # -- virtual open() for the converter / loader (text json + binary opf files)
    def _open(self, name, mode="r", *a, **k):
        from . import vfs
        return vfs.open_file(name, mode)

    def _path(self, name):
        rel = name.split(".")[1:]
        p = os.path.join(self.root, *rel)
        if os.path.isdir(p):
            return os.path.join(p, "__init__.py"), True
        return p + ".py", False

    def _load(self, name):
        if name in self.modules:
            return self.modules[name]
        if "." in name:
            parent = self._load(name.rsplit(".", 1)[0])
        else:
            parent = None
        path, is_pkg = self._path(name)
        if not os.path.exists(path):
            raise ImportError("twin: no module %s (%s)" % (name, path))
        src = open(path, "rb").read()
        self.sha256[os.path.relpath(path, self.repo)] = hashlib.sha256(src).hexdigest()
        mod = types.ModuleType(name)
        mod.__file__ = path
        mod.__builtins__ = self.bi
        if is_pkg:
            mod.__path__ = [os.path.dirname(path)]
            mod.__package__ = name
        else:
            mod.__package__ = name.rsplit(".", 1)[0]
        self.modules[name] = mod
        if self.install:
            if name not in self._saved:
                self._saved[name] = sys.modules.get(name)
            sys.modules[name] = mod
        if parent is not None:
            setattr(parent, name.rsplit(".", 1)[1], mod)
        if name == "opfython.utils.logging" and self.quiet:
            mod.get_logger = lambda n: _NullLogger()
            return mod
        tree = ast.parse(src, filename=path)
        low = _Lower()
        tree = low.visit(tree)
        self.lowered += low.count
        if self.ast_mutator is not None:
            tree = self.ast_mutator(name, tree) or tree
        ast.fix_missing_locations(tree)
        code = compile(tree, path, "exec")
        exec(code, mod.__dict__)
        return mod

    def _import(self, name, globals=None, locals=None, fromlist=(), level=0):
        if level != 0:
            raise ImportError("twin: relative imports unsupported")
        top = name.split(".")[0]
        if name in self.extra:
            return self.extra[name]
        if top == "numpy":
            if name != "numpy":
                raise core.Unsupported("import %s" % name)
            return symnp
        if top == "numba":
            return self.numba
        if name == "math":
            return symmath
        if name == "json":
            from . import symio
            return symio.json
        if name == "struct":
            from . import symio
            return symio.struct
        if top == "opfython":
            mod = self._load(name)
            if fromlist:
                for f in fromlist:
                    if not hasattr(mod, f):
                        try:
                            self._load(name + "." + f)
                        except ImportError:
                            pass
                return mod
            return self.modules["opfython"]
        return builtins.__import__(name, globals, locals, fromlist, level)

    def load_all(self):
        for dirpath, dirnames, filenames in sorted(os.walk(self.root)):
            dirnames[:] = sorted(d for d in dirnames if d != "__pycache__")
            for fn in sorted(filenames):
                if fn.endswith(".py"):
                    rel = os.path.relpath(os.path.join(dirpath, fn), self.repo)[:-3]
                    parts = rel.split(os.sep)
                    if parts[-1] == "__init__":
                        parts = parts[:-1]
                    self._load(".".join(parts))
        return self

    def mod(self, name):
        return self._load(name)

    def uninstall(self):
        for name, old in self._saved.items():
            if old is None:
                sys.modules.pop(name, None)
            else:
                sys.modules[name] = old
        self._saved = {}

    # -- function-entry recording (evidence: functions actually encoded)
    def start_profile(self):
        root = self.root
        entered = self.entered

        def prof(frame, event, arg):
            if event == "call":
                fn = frame.f_code.co_filename
                if fn.startswith(root):
                    entered.add("%s:%s" % (os.path.relpath(fn, self.repo), frame.f_code.co_qualname
                                           if hasattr(frame.f_code, "co_qualname") else frame.f_code.co_name))
        sys.setprofile(prof)

    def stop_profile(self):
        sys.setprofile(None)
        return sorted(self.entered)


def load(repo=None, **kw):
    return Twin(repo, **kw).load_all()
