"""stand-ins for `json` and `struct` acting on the virtual file system (see symx.vfs)."""
import struct as _struct
import types

from . import vfs, symnp
from .core import Unsupported

json = types.ModuleType("json")
struct = types.ModuleType("struct")


def _dump(obj, fh, **kw):
    if kw:
        raise Unsupported("json.dump options %r" % sorted(kw))
    vfs.write_json(fh.name, obj)


def _load(fh, **kw):
    return vfs.read_json(fh.name)


json.dump = _dump
json.load = _load

struct.calcsize = _struct.calcsize


def _unpack(fmt, data):
    if not isinstance(data, vfs.SymBytes):
        return _struct.unpack(fmt, data)
    f = fmt
    if f and f[0] in "<>=!@":
        if f[0] != "<":
            raise Unsupported("struct byte order %r" % f[0])
        f = f[1:]
    if _struct.calcsize(fmt) != len(data):
        raise _struct.error("unpack requires a buffer of %d bytes" % _struct.calcsize(fmt))
    out = []
    for ch, (kind, val) in zip(f, data.fields):
        if ch != kind:
            raise Unsupported("struct.unpack: field written as %r read as %r" % (kind, ch))
        if ch == "f":
            symnp.mark_single(val)      # a binary32 field: storing it into a float32 array is the identity
        out.append(val)
    return tuple(out)


struct.unpack = _unpack
struct.error = _struct.error


class _Struct:
    def __init__(self, fmt):
        self.format = fmt
        self.size = _struct.calcsize(fmt)

    def unpack(self, data):
        return _unpack(self.format, data)

    def iter_unpack(self, data):
        if not isinstance(data, vfs.SymBytes):
            return _struct.iter_unpack(self.format, data)
        k = self.size // 4
        if len(data.fields) % k:
            raise _struct.error("iterative unpacking requires a buffer of a multiple of %d bytes" % self.size)
        return iter([_unpack(self.format, vfs.SymBytes(data.fields[i:i + k])) for i in range(0, len(data.fields), k)])

    def unpack_from(self, data, offset=0):
        if isinstance(data, vfs.SymBytes):
            k0 = offset // 4
            return _unpack(self.format, vfs.SymBytes(data.fields[k0:k0 + self.size // 4]))
        return _struct.unpack_from(self.format, data, offset)


struct.Struct = _Struct
struct.iter_unpack = lambda fmt, data: _Struct(fmt).iter_unpack(data)
struct.unpack_from = lambda fmt, data, offset=0: _Struct(fmt).unpack_from(data, offset)
