"""symx.symnp -- a small model of the numpy 2.5.3 surface used by opfython.

Arrays are SArr objects: <= 2-d strided views over a shared Buf, so that
numpy's view/copy aliasing rules are reproduced (basic indexing -> view,
fancy indexing -> copy, in-place operators write through).  Elements are
python numbers or symx scalars.  Everything not modelled raises Unsupported.
"""
from __future__ import annotations

import sys
import builtins as _bi

import z3

from . import core
from .core import (SymReal, SymInt, SymBool, Unsupported, is_sym, sym_ite, sym_max, sym_min,
                   sym_eq, wrap, to_real, to_int, to_bool, engine)

nan = float("nan")
inf = float("inf")


class int32(int):
    __slots__ = ()

    def item(self):
        return int(self)


class int64(int):
    __slots__ = ()

    def item(self):
        return int(self)


class float64(float):
    __slots__ = ()

    def item(self):
        return float(self)


class float32(float):
    __slots__ = ()

    def item(self):
        return float(self)


def _scalar(v):
    """array element -> numpy-like scalar (has .item())"""
    t = type(v)
    if t is int:
        return int64(v)
    if t is float:
        return float64(v)
    return v


EXACT_CONCRETE = True   # False: plain float semantics for concrete values (conformance runs without a solver)
WRITE_LOG = []          # (buf.tag, flat index, old, new, site)
_HERE = __file__.rsplit("/", 1)[0]


def _site():
    f = sys._getframe(1)
    while f is not None and f.f_code.co_filename.startswith(_HERE):
        f = f.f_back
    if f is None:
        return "?"
    return "%s:%s:%d" % (f.f_code.co_filename, f.f_code.co_name, f.f_lineno)


class Buf:
    __slots__ = ("data", "tag", "single")

    def __init__(self, data, tag=None):
        self.data = data
        self.tag = tag
        self.single = False       # storage is IEEE binary32: every store rounds (see to_single)

    def write(self, k, v):
        if self.tag is not None:
            WRITE_LOG.append((self.tag, k, self.data[k], v, _site()))
        self.data[k] = v


SINGLE_TERMS = {}                 # z3 ast ids of reals known to be binary32 values (fields unpacked with 'f')


def mark_single(v):
    if isinstance(v, SymReal):
        SINGLE_TERMS[v.e.get_id()] = v.e     # keeps the term alive, so the id is never re-used
    return v


def to_single(v):
    """value stored into a float32 slot.  Concrete numbers: the real conversion.  Symbolic integers below 2**31:
    exact round-to-nearest-even (identity up to 2**24, then steps of 2, 4, ... 128).  Symbolic reals that were
    read from a binary32 field: identity.  Anything else is not modelled (loud)."""
    import struct as _st
    if isinstance(v, (bool, SymBool)):
        return v
    if isinstance(v, (int, float)) and not isinstance(v, (SymReal, SymInt)):
        return _st.unpack("f", _st.pack("f", v))[0]
    if isinstance(v, SymInt):
        e = v.e
        a = z3.If(e >= 0, e, -e)
        engine().require(a < 2 ** 31, "integer stored into float32 below 2**31")
        r = a
        for k in range(24, 31):
            st = 2 ** (k - 23)
            q, m = a / st, a % st
            up = z3.Or(m * 2 > st, z3.And(m * 2 == st, q % 2 == 1))
            r = z3.If(z3.And(a >= 2 ** k, a < 2 ** (k + 1)), st * z3.If(up, q + 1, q), r)
        return wrap(z3.ToReal(z3.If(e >= 0, r, -r)))
    if isinstance(v, SymReal):
        if v.e.get_id() in SINGLE_TERMS or z3.is_rational_value(v.e):
            if z3.is_rational_value(v.e):
                return to_single(float(v.e.as_fraction()))
            return v
        raise Unsupported("float32 rounding of an arbitrary symbolic real")
    return v



def _isnan(v):
    return isinstance(v, float) and v != v


def _is_scalar(x):
    return isinstance(x, (int, float, bool, SymReal, SymInt, SymBool))


class SArr(core._ArrLike):
    __slots__ = ("buf", "shape", "strides", "offset", "dtype", "__weakref__")
    __hash__ = None
    __array_priority__ = 1000

    def __init__(self, buf, shape, strides=None, offset=0, dtype="f"):
        self.buf = buf
        self.shape = tuple(shape)
        if strides is None:
            st = []
            acc = 1
            for s in reversed(self.shape):
                st.append(acc)
                acc *= s
            strides = tuple(reversed(st))
        self.strides = tuple(strides)
        self.offset = offset
        self.dtype = dtype

    # ---- construction helpers
    @staticmethod
    def from_list(lst, dtype=None, tag=None):
        if isinstance(lst, SArr):
            return lst.copy()
        lst = list(lst)
        if len(lst) > 0 and isinstance(lst[0], (list, tuple, SArr)):
            rows = [list(r) if not isinstance(r, SArr) else r.tolist() for r in lst]
            n = len(rows[0])
            for r in rows:
                if len(r) != n:
                    raise ValueError("inhomogeneous shape")
                for v in r:
                    if isinstance(v, (list, tuple, SArr)):
                        raise Unsupported("arrays with more than 2 dimensions")
            flat = [v for r in rows for v in r]
            shape = (len(rows), n)
        else:
            flat = lst
            shape = (len(lst),)
        if dtype is None:
            dtype = _infer_dtype(flat)
        return SArr(Buf(flat, tag), shape, dtype=dtype)

    @property
    def ndim(self):
        return len(self.shape)

    @property
    def size(self):
        n = 1
        for s in self.shape:
            n *= s
        return n

    def __len__(self):
        if not self.shape:
            raise TypeError("len() of unsized object")
        return self.shape[0]

    def _flat_index(self, idx):
        k = self.offset
        for i, s in zip(idx, self.strides):
            k += i * s
        return k

    def _indices(self):
        if len(self.shape) == 1:
            for i in range(self.shape[0]):
                yield (i,)
        elif len(self.shape) == 2:
            for i in range(self.shape[0]):
                for j in range(self.shape[1]):
                    yield (i, j)
        else:
            yield ()

    def _get(self, idx):
        return self.buf.data[self._flat_index(idx)]

    def _set(self, idx, v):
        self.buf.write(self._flat_index(idx), self._coerce(v))

    def _coerce(self, v):
        if isinstance(v, SArr):
            if v.size == 1 and v.ndim <= 1 and False:
                pass
            # numpy 2.x: assigning a sequence to a scalar slot
            raise ValueError("setting an array element with a sequence.")
        if self.dtype == "i":
            if isinstance(v, (SymReal, float)):
                return core.sym_trunc(v)
        if self.buf.single:
            return to_single(v)
        return v

    def flat(self):
        return [self._get(i) for i in self._indices()]

    def tolist(self):
        if self.ndim == 1:
            return self.flat()
        return [[self._get((i, j)) for j in range(self.shape[1])] for i in range(self.shape[0])]

    def copy(self):
        return SArr(Buf(self.flat()), self.shape, dtype=self.dtype)

    def flatten(self):
        vals = self.flat()
        return SArr(Buf(vals), (len(vals),), dtype=self.dtype)

    ravel = flatten

    def astype(self, t):
        dt = _dtype_of(t)
        vals = self.flat()
        if dt == "i":
            vals = [core.sym_trunc(v) for v in vals]
        elif dt == "f":
            vals = [to_single(v) for v in vals] if t is float32 else [v for v in vals]
        out = SArr(Buf(vals), self.shape, dtype=dt)
        out.buf.single = t is float32
        return out

    def item(self):
        if self.size != 1:
            raise ValueError("can only convert an array of size 1 to a Python scalar")
        return self.flat()[0]

    def fill(self, v):
        for i in self._indices():
            self._set(i, v)

    def __iter__(self):
        if self.ndim == 0:
            raise TypeError("iteration over a 0-d array")
        for i in range(self.shape[0]):
            yield self[i]

    # numpy >= 2.x: only 0-d arrays convert to python scalars
    def __int__(self):
        raise TypeError("only 0-dimensional arrays can be converted to Python scalars")

    __float__ = __int__
    __index__ = __int__

    def __bool__(self):
        if self.size != 1:
            raise ValueError("The truth value of an array with more than one element is ambiguous.")
        return bool(self.flat()[0])

    def __repr__(self):
        return "SArr(%r)" % (self.tolist(),)

    # ---- indexing
    def _norm(self, i, n):
        if isinstance(i, bool):
            raise Unsupported("boolean scalar index")
        if i < 0:
            i += n
        if not 0 <= i < n:
            raise IndexError("index %d is out of bounds for axis with size %d" % (i, n))
        return i

    def _axis_sel(self, key, axis):
        """-> ('int', i) | ('slice', start, step, count) | ('fancy', [i...]) | ('sym', SymInt)"""
        n = self.shape[axis]
        if isinstance(key, SymInt):
            k = engine().determined(key.e)
            if k is not None:
                return ("int", self._norm(k, n))
            return ("sym", key)
        if isinstance(key, slice):
            start, stop, step = key.indices(n)
            cnt = len(range(start, stop, step))
            return ("slice", start, step, cnt)
        if isinstance(key, SArr):
            if key.dtype == "b":
                vals = key.flat()
                if len(vals) != n:
                    raise IndexError("boolean index did not match")
                return ("fancy", [k for k, v in enumerate(vals) if bool(v)])
            if key.ndim != 1:
                raise Unsupported("fancy index with ndim != 1")
            return ("fancy", [self._norm(_idx(v), n) for v in key.flat()])
        if isinstance(key, (list, tuple)):
            return ("fancy", [self._norm(_idx(v), n) for v in key])
        if isinstance(key, (SymReal, float)):
            raise IndexError("only integers, slices (`:`), ellipsis (`...`), numpy.newaxis (`None`) and integer or boolean arrays are valid indices")
        if isinstance(key, int):
            return ("int", self._norm(key, n))
        raise Unsupported("index of type %r" % type(key))

    def __getitem__(self, key):
        if not isinstance(key, tuple):
            key = (key,)
        if len(key) > self.ndim:
            raise IndexError("too many indices for array")
        sels = [self._axis_sel(k, a) for a, k in enumerate(key)]
        while len(sels) < self.ndim:
            sels.append(("slice", 0, 1, self.shape[len(sels)]))
        kinds = [s[0] for s in sels]
        if "sym" in kinds:
            return self._get_sym(sels)
        if "fancy" in kinds:
            return self._get_fancy(sels)
        off = self.offset
        shape, strides = [], []
        for s, st in zip(sels, self.strides):
            if s[0] == "int":
                off += s[1] * st
            else:
                off += s[1] * st
                shape.append(s[3])
                strides.append(st * s[2])
        if not shape:
            return _scalar(self.buf.data[off])
        return SArr(self.buf, shape, strides, off, self.dtype)

    def _expand(self, s, axis):
        if s[0] == "int":
            return [s[1]], False
        if s[0] == "slice":
            return [s[1] + k * s[2] for k in range(s[3])], True
        return list(s[1]), True

    def _get_fancy(self, sels):
        if self.ndim == 1:
            idx, _ = self._expand(sels[0], 0)
            return SArr(Buf([self._get((i,)) for i in idx]), (len(idx),), dtype=self.dtype)
        r, rk = self._expand(sels[0], 0)
        c, ck = self._expand(sels[1], 1)
        if sels[0][0] == "fancy" and sels[1][0] == "fancy":
            # numpy pairs the two index arrays element by element
            if len(sels[0][1]) != len(sels[1][1]):
                raise IndexError("shape mismatch: indexing arrays could not be broadcast together")
            vals = [self._get((i, j)) for i, j in zip(sels[0][1], sels[1][1])]
            return SArr(Buf(vals), (len(vals),), dtype=self.dtype)
        vals = [self._get((i, j)) for i in r for j in c]
        shape = tuple(n for n, keep in ((len(r), rk), (len(c), ck)) if keep)
        return SArr(Buf(vals), shape, dtype=self.dtype)

    def _get_sym(self, sels):
        if self.ndim == 1:
            k = sels[0][1]
            n = self.shape[0]
            engine().require(z3.And(k.e >= 0, k.e < n), "array index in range")
            acc = self._get((n - 1,))
            for i in range(n - 2, -1, -1):
                acc = sym_ite(wrap(k.e == i), self._get((i,)), acc)
            return acc
        # 2-d
        if sels[0][0] == "sym" and sels[1][0] == "slice" and sels[1][1:] == (0, 1, self.shape[1]):
            engine().require(z3.And(sels[0][1].e >= 0, sels[0][1].e < self.shape[0]), "array index in range")
            return SymRow(self, sels[0][1])
        row = sels[0]
        col = sels[1]
        if col[0] not in ("int", "sym") or row[0] not in ("int", "sym"):
            raise Unsupported("symbolic index combined with slice")
        return SymRow(self, row[1])[col[1]]

    def __setitem__(self, key, value):
        if not isinstance(key, tuple):
            key = (key,)
        if len(key) > self.ndim:
            raise IndexError("too many indices for array")
        sels = [self._axis_sel(k, a) for a, k in enumerate(key)]
        while len(sels) < self.ndim:
            sels.append(("slice", 0, 1, self.shape[len(sels)]))
        kinds = [s[0] for s in sels]
        if "sym" in kinds:
            if self.ndim == 1:
                k = sels[0][1]
                n = self.shape[0]
                engine().require(z3.And(k.e >= 0, k.e < n), "array index in range")
                value = self._coerce(value)
                for i in range(n):
                    self._set((i,), sym_ite(wrap(k.e == i), value, self._get((i,))))
                return
            row, col = sels
            if row[0] in ("int", "sym") and col[0] in ("int", "sym"):
                SymRow(self, row[1])[col[1]] = value
                return
            raise Unsupported("symbolic index store combined with slice")
        if self.ndim == 1:
            idx, keep = self._expand(sels[0], 0)
            if not keep:
                self._set((idx[0],), value)
                return
            vals = _bcast_to(value, (len(idx),))
            for i, v in zip(idx, vals):
                self._set((i,), v)
            return
        if sels[0][0] == "fancy" and sels[1][0] == "fancy":
            pairs = list(zip(sels[0][1], sels[1][1]))
            vals = _bcast_to(value, (len(pairs),))
            for (i, j), v in zip(pairs, vals):
                self._set((i, j), v)
            return
        r, rk = self._expand(sels[0], 0)
        c, ck = self._expand(sels[1], 1)
        if not rk and not ck:
            self._set((r[0], c[0]), value)
            return
        shape = tuple(n for n, keep in ((len(r), rk), (len(c), ck)) if keep)
        vals = _bcast_to(value, shape)
        # numpy copies element by element from the (possibly aliased) source: reading happens
        # lazily from the source view, so overlapping views alias exactly as in numpy
        k = 0
        for i in r:
            for j in c:
                self._set((i, j), vals[k])
                k += 1

    # ---- arithmetic
    def _binop(self, o, f, rev=False, dtype=None):
        if isinstance(o, SymRow):
            o = o.materialise()
        if isinstance(o, (list, tuple)):
            o = SArr.from_list(o)
        if isinstance(o, SArr):
            shape = _bshape(self.shape, o.shape)
            a = _bcast_to(self, shape)
            b = _bcast_to(o, shape)
        elif _is_scalar(o):
            shape = self.shape
            a = self.flat()
            b = [o] * len(a)
        else:
            return NotImplemented
        if rev:
            a, b = b, a
        vals = [f(x, y) for x, y in zip(a, b)]
        return SArr(Buf(vals), shape, dtype=dtype or _infer_dtype(vals))

    def _inplace(self, o, f):
        res = self._binop(o, f)
        if res is NotImplemented:
            return NotImplemented
        if res.shape != self.shape:
            raise ValueError("non-broadcastable output operand")
        if self.dtype == "i" and res.dtype == "f":
            # numpy: UFuncTypeError (same_kind casting)
            raise TypeError("UFuncTypeError: Cannot cast ufunc output from dtype('float64') to dtype('int64')")
        for i, v in zip(list(self._indices()), res.flat()):
            self._set(i, v)
        return self

    def __add__(self, o):
        return self._binop(o, _add)

    def __radd__(self, o):
        return self._binop(o, _add, rev=True)

    def __sub__(self, o):
        return self._binop(o, _sub)

    def __rsub__(self, o):
        return self._binop(o, _sub, rev=True)

    def __mul__(self, o):
        return self._binop(o, _mul)

    def __rmul__(self, o):
        return self._binop(o, _mul, rev=True)

    def __truediv__(self, o):
        return self._binop(o, _truediv, dtype="f")

    def __rtruediv__(self, o):
        return self._binop(o, _truediv, rev=True, dtype="f")

    def __pow__(self, k):
        if isinstance(k, SArr):
            raise Unsupported("array ** array")
        vals = [core.sym_pow(v, k) if is_sym(v) else _pow(v, k) for v in self.flat()]
        return SArr(Buf(vals), self.shape, dtype=_infer_dtype(vals))

    def __neg__(self):
        vals = [-v for v in self.flat()]
        return SArr(Buf(vals), self.shape, dtype=self.dtype)

    def __invert__(self):
        if self.dtype != "b":
            raise Unsupported("~ on a non-boolean array")
        vals = [(not v) if isinstance(v, bool) else ~v for v in self.flat()]
        return SArr(Buf(vals), self.shape, dtype="b")

    def __iadd__(self, o):
        return self._inplace(o, _add)

    def __isub__(self, o):
        return self._inplace(o, _sub)

    def __imul__(self, o):
        return self._inplace(o, _mul)

    def __itruediv__(self, o):
        if self.dtype == "i":
            raise TypeError("UFuncTypeError: Cannot cast ufunc 'divide' output from dtype('float64') to dtype('int64')")
        return self._inplace(o, _truediv)

    def __lt__(self, o):
        return self._binop(o, lambda a, b: a < b, dtype="b")

    def __le__(self, o):
        return self._binop(o, lambda a, b: a <= b, dtype="b")

    def __gt__(self, o):
        return self._binop(o, lambda a, b: a > b, dtype="b")

    def __ge__(self, o):
        return self._binop(o, lambda a, b: a >= b, dtype="b")

    def __eq__(self, o):
        return self._binop(o, sym_eq, dtype="b")

    def __ne__(self, o):
        return self._binop(o, _ne, dtype="b")

    # reductions as methods
    def min(self, axis=None, initial=None):
        return amin(self, axis, initial)

    def max(self, axis=None, initial=None):
        return amax(self, axis, initial)

    def sum(self, axis=None):
        return sum(self, axis)

    def mean(self, axis=None):
        return mean(self, axis)

    def __reduce__(self):
        return (_rebuild_arr, (self.tolist() if self.ndim else self.flat(), self.shape, self.dtype))


def _rebuild_arr(lst, shape, dtype):
    if len(shape) == 2 and (shape[0] == 0 or shape[1] == 0):
        return SArr(Buf([]), shape, dtype=dtype)
    a = SArr.from_list(lst, dtype=dtype)
    return a


ndarray = SArr


class SymRow:
    """a[r] with symbolic row r of a 2-d array: reads are ite-chains, writes go through."""
    __slots__ = ("base", "row")

    def __init__(self, base, row):
        self.base = base
        self.row = row

    def _rowcond(self, i):
        if isinstance(self.row, SymInt):
            return wrap(self.row.e == i)
        return self.row == i

    def materialise(self):
        n = self.base.shape[1]
        return SArr(Buf([self[j] for j in range(n)]), (n,), dtype=self.base.dtype)

    def copy(self):
        return self.materialise()

    def __getitem__(self, col):
        b = self.base
        nr, nc = b.shape
        if isinstance(col, SymInt):
            engine().require(z3.And(col.e >= 0, col.e < nc), "array index in range")
        acc = None
        for i in range(nr - 1, -1, -1):
            rc = self._rowcond(i)
            if rc is False:
                continue
            for j in range(nc - 1, -1, -1):
                cc = wrap(col.e == j) if isinstance(col, SymInt) else (col == j)
                if cc is False:
                    continue
                cond = _and(rc, cc)
                v = b._get((i, j))
                acc = v if acc is None else sym_ite(cond, v, acc)
        return acc

    def __setitem__(self, col, value):
        b = self.base
        nr, nc = b.shape
        value = b._coerce(value)
        for i in range(nr):
            rc = self._rowcond(i)
            if rc is False:
                continue
            for j in range(nc):
                cc = wrap(col.e == j) if isinstance(col, SymInt) else (col == j)
                if cc is False:
                    continue
                cond = _and(rc, cc)
                b._set((i, j), sym_ite(cond, value, b._get((i, j))))


def _and(a, b):
    if a is True:
        return b
    if b is True:
        return a
    return wrap(z3.And(to_bool(a), to_bool(b)))


def _idx(v):
    if isinstance(v, SymInt):
        return v.__index__()
    if isinstance(v, float):
        raise IndexError("arrays used as indices must be of integer (or boolean) type")
    if isinstance(v, (SymReal,)):
        raise IndexError("arrays used as indices must be of integer (or boolean) type")
    return int(v)


def _infer_dtype(vals):
    dt = "i"
    for v in vals:
        if isinstance(v, (bool, SymBool)):
            if dt == "i":
                dt = "b"
            continue
        if isinstance(v, (float, SymReal)):
            return "f"
        if dt == "b":
            dt = "i"
    if dt == "b" and not vals:
        return "f"
    if dt == "b":
        for v in vals:
            if not isinstance(v, (bool, SymBool)):
                return "i"
    return dt if vals else "f"


def _dtype_of(t):
    if t in ("f", "i", "b"):
        return t
    if t in (int, int32, int64) or getattr(t, "__name__", "") in ("sym_int", "int"):
        return "i"
    if t in (float, float64, float32) or getattr(t, "__name__", "") == "float":
        return "f"
    if t is bool:
        return "b"
    if t is None:
        return "f"
    raise Unsupported("dtype %r" % (t,))


def _bshape(s1, s2):
    if s1 == s2:
        return s1
    if len(s1) == 2 and len(s2) == 1 and s1[1] == s2[0]:
        return s1
    if len(s1) == 1 and len(s2) == 2 and s2[1] == s1[0]:
        return s2
    if len(s2) == 1 and s2[0] == 1:
        return s1
    if len(s1) == 1 and s1[0] == 1:
        return s2
    if len(s1) == 2 and len(s2) == 2 and s1[1] == s2[1] and (s1[0] == 1 or s2[0] == 1):
        return (_bi.max(s1[0], s2[0]), s1[1])
    raise ValueError("operands could not be broadcast together with shapes %s %s" % (s1, s2))


class _LazyVals:
    """element sequence read lazily from a source view (keeps numpy's aliasing behaviour)."""

    def __init__(self, arr, shape):
        self.arr = arr
        self.shape = shape
        self.idx = list(SArr(Buf([]), shape)._indices()) if shape else [()]

    def __len__(self):
        return len(self.idx)

    def __getitem__(self, k):
        i = self.idx[k]
        a = self.arr
        if a.shape == self.shape:
            return a._get(i)
        if a.ndim == 1 and len(self.shape) == 2:
            if a.shape[0] == 1:
                return a._get((0,))
            return a._get((i[1],))
        if a.ndim == 2 and len(self.shape) == 2:
            return a._get((i[0] if a.shape[0] > 1 else 0, i[1] if a.shape[1] > 1 else 0))
        if a.ndim == 1 and len(self.shape) == 1 and a.shape[0] == 1:
            return a._get((0,))
        if a.ndim == 2 and len(self.shape) == 1 and a.shape[0] == 1:
            return a._get((0, i[0]))
        raise ValueError("could not broadcast input array from shape %s into shape %s" % (a.shape, self.shape))

    def __iter__(self):
        for k in range(len(self.idx)):
            yield self[k]


def _bcast_to(x, shape):
    if isinstance(x, SymRow):
        x = x.materialise()
    if isinstance(x, (list, tuple)):
        x = SArr.from_list(x)
    if isinstance(x, SArr):
        if x.shape != shape:
            ok = False
            try:
                ok = _bshape(x.shape, shape) == shape
            except ValueError:
                ok = False
            if x.ndim == 2 and len(shape) == 1 and x.shape[0] == 1 and x.shape[1] == shape[0]:
                ok = True
            if not ok:
                raise ValueError("could not broadcast input array from shape %s into shape %s" % (x.shape, shape))
        return _LazyVals(x, shape)
    n = 1
    for s in shape:
        n *= s
    return [x] * n


def _add(a, b):
    if _isnan(a) or _isnan(b):
        return nan
    return a + b


def _sub(a, b):
    if _isnan(a) or _isnan(b):
        return nan
    return a - b


def _mul(a, b):
    if _isnan(a) or _isnan(b):
        return nan
    return a * b


def _ne(a, b):
    r = sym_eq(a, b)
    return (not r) if isinstance(r, bool) else wrap(z3.Not(r.e))


def _pow(v, k):
    if k == 0.5:
        from . import symmath
        return symmath.sqrt(v)
    return v ** k


def _exact_div(a, b):
    """concrete a / b without introducing a rounding error into the (exact-real) model: the float
    quotient when it is exact, else an exact rational numeral"""
    from fractions import Fraction
    q = a / b
    if not EXACT_CONCRETE:
        return q
    fa, fb = Fraction(repr(a)), Fraction(repr(b))
    if Fraction(repr(q)) == fa / fb:
        return q
    return SymReal(core.rv(fa / fb))


def _truediv(a, b):
    """numpy float division: x/0 -> inf/nan (warning, no exception)."""
    if _isnan(a) or _isnan(b):
        return nan
    if not is_sym(b):
        if b == 0:
            if not is_sym(a):
                if a == 0:
                    return nan
                return inf if a > 0 else -inf
            # symbolic numerator over a constant zero
            if engine().decide(to_real(a) == 0):
                return nan
            engine().note_illdefined("division of a non-zero value by zero (inf)", None)
            raise core.PathAbort()
        if not is_sym(a):
            return _exact_div(a, b)
        return a / b
    # symbolic denominator: use its value when the path condition determines it, else fork on zero
    if isinstance(b, SymInt):
        k = engine().determined(b.e)
        if k is not None:
            return _truediv(a, k)
    if engine().decide(to_real(b) == 0):
        return _truediv(a, 0)
    if engine().purify_div:
        return wrap(engine().quotient(to_real(a), to_real(b)))
    return wrap(to_real(a) / to_real(b))


# ---------------------------------------------------------------------------
# constructors

def zeros(shape, dtype=None):
    dt = _dtype_of(dtype) if dtype is not None else "f"
    z = 0 if dt == "i" else (False if dt == "b" else 0.0)
    if isinstance(shape, tuple):
        shape = tuple(_idx(s) for s in shape)
    else:
        shape = (_idx(shape),)
    n = 1
    for s in shape:
        if s < 0:
            raise ValueError("negative dimensions are not allowed")
        n *= s
    out = SArr(Buf([z] * n), shape, dtype=dt)
    out.buf.single = dtype is float32
    return out


def empty(shape, dtype=None):
    """uninitialised memory: arbitrary values (fresh symbols), so that code reading a slot it never wrote
    shows up as a dependence on garbage"""
    a = zeros(shape, dtype)
    if core.active() and a.dtype == "f":
        eng = engine()
        for i in a._indices():
            a.buf.data[a._flat_index(i)] = eng.real(eng.fresh("uninit"))
    return a


def ones(shape, dtype=None):
    a = zeros(shape, dtype)
    a.fill(1 if a.dtype == "i" else (True if a.dtype == "b" else 1.0))
    return a


def asarray(x, dtype=None):
    if isinstance(x, SArr):
        return x
    if isinstance(x, SymRow):
        return x.materialise()
    if x is None:
        return _NoneArr()
    if _is_scalar(x):
        raise Unsupported("0-d arrays")
    out = SArr.from_list(x, dtype=_dtype_of(dtype) if dtype is not None else None)
    if dtype is float32:
        out = out.astype(float32)
    return out


class _NoneArr(SArr):
    """np.asarray(None): an object 0-d array (Node() built without features)."""
    __slots__ = ()

    def __init__(self):
        SArr.__init__(self, Buf([None]), (), dtype="O")


def ascontiguousarray(x, dtype=None):
    """numpy returns the argument itself when it already is a C-contiguous array of the requested dtype"""
    if isinstance(x, SArr):
        dt = _dtype_of(dtype) if dtype is not None else x.dtype
        contiguous = x.strides == SArr(x.buf, x.shape).strides or x.ndim <= 1 and (not x.strides or x.strides[0] == 1)
        if dt == x.dtype and contiguous:
            return x
        return x.astype(dtype if dtype is not None else float) if dt != x.dtype else x.copy()
    if _is_scalar(x):
        return SArr(Buf([sym_float_like(x, dtype)]), (1,), dtype=_dtype_of(dtype) if dtype is not None else _infer_dtype([x]))
    a = SArr.from_list(x)
    return a.astype(dtype) if dtype is not None else a


def sym_float_like(x, dtype):
    if dtype is not None and _dtype_of(dtype) == "f" and isinstance(x, int) and not isinstance(x, bool):
        return float(x)
    return x


def isclose(a, b, rtol=1e-05, atol=1e-08):
    def f(u, v):
        d = _bi.abs(u - v)
        return d <= atol + rtol * _bi.abs(v)
    return _ew2(a, b, f)


def array(x, dtype=None):
    a = asarray(x, dtype)
    return a.copy() if a is x else a


def vstack(tup):
    rows = []
    nc = None
    for a in tup:
        a = asarray(a)
        if a.ndim == 1:
            r = [a.flat()]
        else:
            r = a.tolist()
        for row in r:
            if nc is None:
                nc = len(row)
            if len(row) != nc:
                raise ValueError("all the input array dimensions except for the concatenation axis must match exactly")
            rows.append(row)
    if nc is None:
        nc = 0
    if not rows:
        # all inputs empty: keep the column count of the first 2-d input
        for a in tup:
            a = asarray(a)
            if a.ndim == 2:
                nc = a.shape[1]
                break
        return SArr(Buf([]), (0, nc))
    return SArr(Buf([v for r in rows for v in r]), (len(rows), nc))


def hstack(tup):
    arrs = [asarray(a) for a in tup]
    if arrs and _bi.all(a.ndim == 2 for a in arrs):
        nr = arrs[0].shape[0]
        if not _bi.all(a.shape[0] == nr for a in arrs):
            raise ValueError("all the input array dimensions except for the concatenation axis must match exactly")
        rows = [[v for a in arrs for v in a[i].flat()] for i in range(nr)]
        nc = _bi.sum(a.shape[1] for a in arrs)
        return SArr(Buf([v for r in rows for v in r]), (nr, nc), dtype=_infer_dtype([v for r in rows for v in r]) if nr * nc else "f")
    vals = []
    for a in arrs:
        if a.ndim != 1:
            raise Unsupported("hstack of arrays with different ndim")
        vals.extend(a.flat())
    return SArr(Buf(vals), (len(vals),), dtype=_infer_dtype(vals) if vals else "f")


# ---------------------------------------------------------------------------
# elementwise

def _ew(x, f, dtype="f"):
    if isinstance(x, SymRow):
        x = x.materialise()
    if isinstance(x, SArr):
        vals = [f(v) for v in x.flat()]
        return SArr(Buf(vals), x.shape, dtype=dtype)
    return f(x)


def _ew2(a, b, f):
    if isinstance(a, SArr):
        return a._binop(b, f)
    if isinstance(b, SArr):
        return b._binop(a, f, rev=True)
    return f(a, b)


def fabs(x):
    return _ew(x, lambda v: _bi.abs(v) if not _isnan(v) else nan)


absolute = fabs


def maximum(a, b):
    return _ew2(a, b, sym_max)


def minimum(a, b):
    return _ew2(a, b, sym_min)


def exp(x):
    from . import symmath
    return _ew(x, symmath.exp)


def log(x):
    from . import symmath
    return _ew(x, symmath.log)


def sqrt(x):
    from . import symmath
    return _ew(x, symmath.sqrt)


# ---------------------------------------------------------------------------
# reductions

def _reduce(a, axis, f, init=None):
    a = asarray(a)
    if axis is None:
        vals = a.flat()
        return f(vals)
    if a.ndim != 2:
        if axis == 0 and a.ndim == 1:
            return f(a.flat())
        raise Unsupported("axis reduction on ndim %d" % a.ndim)
    if axis == 0:
        out = [f([a._get((i, j)) for i in range(a.shape[0])]) for j in range(a.shape[1])]
    elif axis == 1:
        out = [f([a._get((i, j)) for j in range(a.shape[1])]) for i in range(a.shape[0])]
    else:
        raise Unsupported("axis %r" % (axis,))
    return SArr(Buf(out), (len(out),), dtype=_infer_dtype(out))


def _sumlist(vals):
    acc = 0.0 if _bi.any(isinstance(v, (float, SymReal)) for v in vals) or not vals else 0
    for v in vals:
        acc = _add(acc, v)
    return acc


def _nansumlist(vals):
    acc = 0.0 if _bi.any(isinstance(v, (float, SymReal)) for v in vals) or not vals else 0
    for v in vals:
        if _isnan(v):
            continue
        acc = acc + v
    return acc


def _maxlist(vals):
    if not vals:
        raise ValueError("zero-size array to reduction operation maximum which has no identity")
    acc = vals[0]
    for v in vals[1:]:
        acc = sym_max(acc, v)
    return acc


def _minlist(vals):
    if not vals:
        raise ValueError("zero-size array to reduction operation minimum which has no identity")
    acc = vals[0]
    for v in vals[1:]:
        acc = sym_min(acc, v)
    return acc


def sum(a, axis=None):
    return _reduce(a, axis, _sumlist)


def nansum(a, axis=None):
    return _reduce(a, axis, _nansumlist)


def amax(a, axis=None, initial=None):
    if initial is not None:
        return _reduce(a, axis, lambda vals: _maxlist([initial] + list(vals)))
    return _reduce(a, axis, _maxlist)


def amin(a, axis=None, initial=None):
    if initial is not None:
        return _reduce(a, axis, lambda vals: _minlist([initial] + list(vals)))
    return _reduce(a, axis, _minlist)


max = amax
min = amin


def mean(a, axis=None):
    def f(vals):
        return _truediv(_sumlist(vals), len(vals))
    return _reduce(a, axis, f)


def std(a, axis=None):
    from . import symmath

    def f(vals):
        m = _truediv(_sumlist(vals), len(vals))
        sq = [(v - m) * (v - m) for v in vals]
        return symmath.sqrt(_truediv(_sumlist(sq), len(vals)))
    return _reduce(a, axis, f)


def count_nonzero(a):
    a = asarray(a)
    acc = 0
    for v in a.flat():
        if isinstance(v, (SymBool,)):
            acc = acc + wrap(z3.If(v.e, z3.IntVal(1), z3.IntVal(0)))
        elif is_sym(v):
            acc = acc + wrap(z3.If(to_real(v) != 0, z3.IntVal(1), z3.IntVal(0)))
        else:
            acc = acc + (1 if v else 0)
    return acc


def bincount(a, weights=None, minlength=0):
    if weights is not None:
        raise Unsupported("bincount weights")
    a = asarray(a)
    if a.dtype == "f":
        raise TypeError("Cannot cast array data from dtype('float64') to dtype('int64') according to the rule 'safe'")
    vals = a.flat()
    ml = _idx(minlength) if not isinstance(minlength, int) else minlength
    if not vals:
        return SArr(Buf([0] * ml), (ml,), dtype="i")
    m = _maxlist(vals)
    n = _idx(m) + 1 if not isinstance(m, int) else m + 1
    n = _bi.max(n, ml)
    out = []
    for c in range(n):
        acc = 0
        for v in vals:
            if is_sym(v):
                acc = acc + wrap(z3.If(to_int(v) == c, z3.IntVal(1), z3.IntVal(0)))
            else:
                if v < 0:
                    raise ValueError("'list' argument must have no negative elements")
                acc = acc + (1 if v == c else 0)
        out.append(acc)
    return SArr(Buf(out), (n,), dtype="i")


def unique(a, return_counts=False):
    """sorted distinct values (forks on value equalities/orderings of symbolic elements)."""
    a = asarray(a)
    vals = a.flat()
    uniq = []     # sorted
    counts = []
    for v in vals:
        placed = False
        for k, u in enumerate(uniq):
            if bool(sym_eq(v, u)):
                counts[k] = counts[k] + 1
                placed = True
                break
            if bool(v < u):
                uniq.insert(k, v)
                counts.insert(k, 1)
                placed = True
                break
        if not placed:
            uniq.append(v)
            counts.append(1)
    u = SArr(Buf(uniq), (len(uniq),), dtype=a.dtype)
    if return_counts:
        return u, SArr(Buf(counts), (len(counts),), dtype="i")
    return u


def argwhere(a):
    a = asarray(a)
    out = []
    if a.ndim != 1:
        raise Unsupported("argwhere on ndim != 1")
    for k, v in enumerate(a.flat()):
        if bool(v):
            out.append(k)
    return SArr(Buf(list(out)), (len(out), 1), dtype="i")


# ---------------------------------------------------------------------------
# randomness: nondeterministic stubs constrained only by their contract

class _Random:
    def __init__(self):
        self.reset()

    def reset(self):
        self.state = ("unseeded", 0)
        self.calls = []
        self.provider = None     # harness may install: provider(kind, args) -> value

    def seed(self, s):
        self.state = ("seed", s, 0)
        self.calls.append(("seed", s))

    def _advance(self):
        st = self.state
        self.state = st[:-1] + (st[-1] + 1,)
        return st

    def permutation(self, n):
        st = self._advance()
        self.calls.append(("permutation", n, st))
        if self.provider is None:
            raise Unsupported("np.random.permutation without a harness provider")
        vals = self.provider("permutation", (n, st))
        return SArr(Buf(list(vals)), (len(vals),), dtype="i")

    def shuffle(self, x):
        """in-place shuffle = apply a permutation drawn from the current generator state"""
        n = len(x)
        perm = self.permutation(n).flat()
        vals = [x[int(i)] if x.ndim == 1 else x[int(i)].copy() for i in perm]
        for k, v in enumerate(vals):
            x[k] = v

    def uniform(self, low=0.0, high=1.0, size=None):
        st = self._advance()
        self.calls.append(("uniform", low, high, size, st))
        if self.provider is None:
            raise Unsupported("np.random.uniform without a harness provider")
        vals = self.provider("uniform", (low, high, size, st))
        if size is None:
            return vals
        return SArr(Buf(list(vals)), (len(vals),), dtype="f")

    def normal(self, loc=0.0, scale=1.0, size=None):
        st = self._advance()
        self.calls.append(("normal", loc, scale, size, st))
        if self.provider is None:
            raise Unsupported("np.random.normal without a harness provider")
        vals = self.provider("normal", (loc, scale, size, st))
        if size is None:
            return vals
        return SArr(Buf(list(vals)), (len(vals),), dtype="f")


random = _Random()


# ---------------------------------------------------------------------------
# files (virtual file system, see symx.vfs)

def savetxt(fname, X, fmt="%.18e", delimiter=" ", **kw):
    from . import vfs
    if kw:
        raise Unsupported("savetxt options %r" % (sorted(kw),))
    if fmt != "%.18e":
        raise Unsupported("savetxt with a possibly lossy fmt %r" % (fmt,))
    if isinstance(X, (list, tuple)):
        X = SArr.from_list(X)
    rows = X.tolist() if X.ndim == 2 else [[v] for v in X.flat()]
    vfs.write_table(fname, rows, delimiter)


def loadtxt(fname, delimiter=None, ndmin=0, **kw):
    from . import vfs
    if kw:
        raise Unsupported("loadtxt options %r" % (sorted(kw),))
    rows = vfs.read_table(fname, delimiter)
    if len(rows) == 1 and ndmin < 2:
        return SArr.from_list(rows[0], dtype="f")
    return SArr.from_list(rows, dtype="f")


# ---------------------------------------------------------------------------
# further numpy surface (not used by the pinned tree, but plausible in edits of it)

def fromiter(it, dtype=float, count=-1):
    vals = list(it)
    if count is not None and count >= 0:
        vals = vals[:count]
    dt = _dtype_of(dtype)
    if dt == "i":
        vals = [core.sym_trunc(v) if isinstance(v, (SymReal, float)) else v for v in vals]
    elif dt == "f":
        vals = [float(v) if isinstance(v, int) and not isinstance(v, bool) else v for v in vals]
    return SArr(Buf(vals), (len(vals),), dtype=dt)


def full(shape, fill_value, dtype=None):
    a = zeros(shape, dtype)
    if dtype is None:
        a.dtype = _infer_dtype([fill_value])
    a.fill(fill_value)
    return a


def arange(*args):
    vals = list(range(*[_idx(a) for a in args]))
    return SArr(Buf(vals), (len(vals),), dtype="i")


def concatenate(tup, axis=0):
    arrs = [asarray(a) for a in tup]
    if _bi.all(a.ndim == 1 for a in arrs):
        return hstack(arrs)
    if axis == 0:
        return vstack(arrs)
    raise Unsupported("concatenate along axis %r" % (axis,))


def square(x):
    return _ew(x, lambda v: v * v, dtype="f")


def zeros_like(a, dtype=None):
    a = asarray(a)
    return zeros(a.shape, dtype if dtype is not None else ({"i": int, "f": float, "b": bool}[a.dtype]))


def ones_like(a, dtype=None):
    z = zeros_like(a, dtype)
    z.fill(1 if z.dtype == "i" else 1.0)
    return z


def empty_like(a, dtype=None):
    a = asarray(a)
    return empty(a.shape, dtype if dtype is not None else ({"i": int, "f": float, "b": bool}[a.dtype]))


def where(cond, a=None, b=None):
    if a is None:
        return (argwhere(cond).flatten(),)
    cond = asarray(cond)
    av = _bcast_to(a, cond.shape)
    bv = _bcast_to(b, cond.shape)
    vals = [sym_ite(c, x, y) for c, x, y in zip(cond.flat(), av, bv)]
    return SArr(Buf(vals), cond.shape, dtype=_infer_dtype(vals))


def isnan(x):
    return _ew(x, lambda v: _isnan(v), dtype="b")


def any(a):
    acc = False
    for v in asarray(a).flat():
        acc = acc | v if is_sym(acc) or is_sym(v) else (bool(acc) or bool(v))
    return acc


def all(a):
    acc = True
    for v in asarray(a).flat():
        acc = acc & v if is_sym(acc) or is_sym(v) else (bool(acc) and bool(v))
    return acc


def dot(a, b):
    a, b = asarray(a), asarray(b)
    if a.ndim != 1 or b.ndim != 1 or a.shape != b.shape:
        raise Unsupported("dot of non-vectors")
    return _sumlist([_mul(x, y) for x, y in zip(a.flat(), b.flat())])


def prod(a):
    acc = 1
    for v in asarray(a).flat():
        acc = _mul(acc, v)
    return acc


def cumsum(a):
    vals, acc = [], 0
    for v in asarray(a).flat():
        acc = _add(acc, v)
        vals.append(acc)
    return SArr(Buf(vals), (len(vals),), dtype=_infer_dtype(vals))


def clip(a, lo, hi):
    return maximum(minimum(a, hi), lo)


def argmax(a):
    vals = asarray(a).flat()
    best = 0
    for k in range(1, len(vals)):
        if bool(vals[k] > vals[best]):
            best = k
    return best


def argmin(a):
    vals = asarray(a).flat()
    best = 0
    for k in range(1, len(vals)):
        if bool(vals[k] < vals[best]):
            best = k
    return best


def argsort(a, kind=None):
    vals = asarray(a).flat()
    idx = list(range(len(vals)))
    # stable insertion sort; every comparison is decided by the solver (forks on symbolic values)
    for i in range(1, len(idx)):
        j = i
        while j > 0 and bool(vals[idx[j]] < vals[idx[j - 1]]):
            idx[j], idx[j - 1] = idx[j - 1], idx[j]
            j -= 1
    return SArr(Buf(idx), (len(idx),), dtype="i")


def sort(a):
    a = asarray(a)
    order = argsort(a).flat()
    vals = a.flat()
    return SArr(Buf([vals[i] for i in order]), (len(order),), dtype=a.dtype)


int_ = int64
float_ = float64
bool_ = bool


abs = fabs


def power(x, k):
    return _ew(x, lambda v: core.sym_pow(v, k) if is_sym(v) else _pow(v, k))


def copy(a):
    return asarray(a).copy()


def array_equal(a, b):
    a, b = asarray(a), asarray(b)
    if a.shape != b.shape:
        return False
    return all(a == b)


def append(a, values):
    return hstack((asarray(a).flatten(), asarray(values).flatten() if not _is_scalar(values) else SArr(Buf([values]), (1,))))


def delete(a, idx):
    a = asarray(a)
    ks = [_idx(idx)] if _is_scalar(idx) else [_idx(v) for v in asarray(idx).flat()]
    if a.ndim == 1:
        vals = [v for k, v in enumerate(a.flat()) if k not in ks]
        return SArr(Buf(vals), (len(vals),), dtype=a.dtype)
    raise Unsupported("delete on ndim != 1")


def sign(x):
    return _ew(x, lambda v: (sym_ite(v > 0, 1.0, sym_ite(v < 0, -1.0, 0.0)) if is_sym(v) else float((v > 0) - (v < 0))))


def floor(x):
    from . import symmath
    return _ew(x, symmath.floor)


def transpose(a):
    a = asarray(a)
    if a.ndim != 2:
        return a
    return SArr(a.buf, (a.shape[1], a.shape[0]), (a.strides[1], a.strides[0]), a.offset, a.dtype)


def reshape(a, shape):
    a = asarray(a)
    shape = tuple(shape) if isinstance(shape, (tuple, list)) else (shape,)
    n = a.size
    if -1 in shape:
        known = 1
        for s in shape:
            if s != -1:
                known *= s
        shape = tuple(n // known if s == -1 else s for s in shape)
    if len(shape) > 2:
        raise Unsupported("reshape to more than 2 dimensions")
    return SArr(Buf(a.flat()), shape, dtype=a.dtype)


class _Linalg:
    @staticmethod
    def norm(x, ord=None):
        from . import symmath
        vals = asarray(x).flat()
        if ord in (None, 2):
            return symmath.sqrt(_sumlist([_mul(v, v) for v in vals]))
        if ord == 1:
            return _sumlist([_bi.abs(v) for v in vals])
        raise Unsupported("norm ord %r" % (ord,))


linalg = _Linalg()
SArr.T = property(lambda self: transpose(self))
SArr.reshape = lambda self, *shape: reshape(self, shape[0] if len(shape) == 1 and isinstance(shape[0], (tuple, list)) else shape)


def stack(arrays, axis=0):
    arrs = [asarray(a) for a in arrays]
    if not _bi.all(a.ndim == 1 and a.shape == arrs[0].shape for a in arrs):
        raise Unsupported("stack of non 1-d arrays")
    m = vstack(arrs)
    return m if axis == 0 else transpose(m).copy()


def flatnonzero(a):
    return argwhere(asarray(a).flatten()).flatten()


def atleast_1d(a):
    if _is_scalar(a):
        return SArr(Buf([a]), (1,), dtype=_infer_dtype([a]))
    return asarray(a)


def atleast_2d(a):
    a = atleast_1d(a)
    if a.ndim == 1:
        return SArr(a.buf, (1, a.shape[0]), (0, a.strides[0]), a.offset, a.dtype)
    return a


class _UFunc:
    def __init__(self, f, name):
        self.f = f
        self.__name__ = name

    def __call__(self, a, b):
        return _ew2(a, b, self.f)

    def at(self, a, idx, b):
        """unbuffered in-place operation: repeated indices accumulate"""
        if isinstance(idx, tuple):
            cols = [asarray(i).flat() if not _is_scalar(i) else None for i in idx]
            n = _bi.max(len(c) for c in cols if c is not None)
            keys = [tuple(c[k] if c is not None else idx[j] for j, c in enumerate(cols)) for k in range(n)]
        else:
            keys = [i for i in (asarray(idx).flat() if not _is_scalar(idx) else [idx])]
        vals = _bcast_to(b, (len(keys),))
        for key, v in zip(keys, vals):
            a[key] = self.f(a[key], v)


add = _UFunc(_add, "add")
subtract = _UFunc(_sub, "subtract")
multiply = _UFunc(_mul, "multiply")
divide = _UFunc(_truediv, "divide")


def histogram2d(x, y, bins=10, range=None):
    """counts of (x, y) pairs on an equal-width grid; default range = [min, max] per axis (numpy semantics,
    last bin closed); values are concretised by forking (used on small integer label vectors)"""
    if range is not None or not isinstance(bins, int) and not isinstance(bins, SymInt):
        raise Unsupported("histogram2d with explicit range / non-scalar bins")
    nb = _idx(bins)
    xs = [_idx(v) if is_sym(v) else v for v in asarray(x).flat()]
    ys = [_idx(v) if is_sym(v) else v for v in asarray(y).flat()]

    def edges(vals):
        lo, hi = _bi.min(vals), _bi.max(vals)
        if lo == hi:
            lo, hi = lo - 0.5, hi + 0.5
        return lo, hi

    def binof(v, lo, hi):
        if v == hi:
            return nb - 1
        return int((v - lo) / (hi - lo) * nb)
    H = zeros((nb, nb))
    if xs:
        (xl, xh), (yl, yh) = edges(xs), edges(ys)
        for a, b in zip(xs, ys):
            i, j = binof(a, xl, xh), binof(b, yl, yh)
            H[i, j] = H[i, j] + 1
        xe = [xl + (xh - xl) * t / nb for t in _bi.range(nb + 1)] if False else [xl + (xh - xl) * t / nb for t in __import__("builtins").range(nb + 1)]
        ye = [yl + (yh - yl) * t / nb for t in __import__("builtins").range(nb + 1)]
    else:
        xe = ye = [0.0] * (nb + 1)
    return H, SArr(Buf(xe), (nb + 1,)), SArr(Buf(ye), (nb + 1,))


def triu_indices(n, k=0, m=None):
    m = n if m is None else m
    rr = [i for i in __import__("builtins").range(n) for j in __import__("builtins").range(m) if j - i >= k]
    cc = [j for i in __import__("builtins").range(n) for j in __import__("builtins").range(m) if j - i >= k]
    return SArr(Buf(rr), (len(rr),), dtype="i"), SArr(Buf(cc), (len(cc),), dtype="i")


def tril_indices(n, k=0, m=None):
    m = n if m is None else m
    rr = [i for i in __import__("builtins").range(n) for j in __import__("builtins").range(m) if j - i <= k]
    cc = [j for i in __import__("builtins").range(n) for j in __import__("builtins").range(m) if j - i <= k]
    return SArr(Buf(rr), (len(rr),), dtype="i"), SArr(Buf(cc), (len(cc),), dtype="i")


def triu(a, k=0):
    a = asarray(a)
    out = a.copy()
    for i in __import__("builtins").range(a.shape[0]):
        for j in __import__("builtins").range(a.shape[1]):
            if j - i < k:
                out._set((i, j), 0.0 if a.dtype == "f" else 0)
    return out


def tril(a, k=0):
    a = asarray(a)
    out = a.copy()
    for i in __import__("builtins").range(a.shape[0]):
        for j in __import__("builtins").range(a.shape[1]):
            if j - i > k:
                out._set((i, j), 0.0 if a.dtype == "f" else 0)
    return out
