"""symx.core -- symbolic values and the path-exploration engine.

One Engine per worker process.  A *harness* is a Python callable that builds
symbolic inputs, runs (twin) repository code on them and finally registers
obligations.  The engine explores every feasible path of the harness by
deterministic re-execution with a decision prefix (DFS); z3 decides every
branch and every obligation.

Symbolic values are plain classes (never subclasses of float/int); every
operation that is not modelled raises Unsupported, so that nothing is ever
silently concretised.
"""
from __future__ import annotations

import os
import pickle
import struct
import tempfile
import time
from fractions import Fraction

import z3

import sys as _sys
if hasattr(_sys, "set_int_max_str_digits"):
    _sys.set_int_max_str_digits(0)


class Unsupported(Exception):
    """An operation the symbolic model does not implement (harness error)."""


class PathAbort(BaseException):
    """Current path is infeasible / cut by an assumption (not an error)."""


class BudgetExceeded(BaseException):
    pass


_ENGINE = None
SLOTS = None      # optional multiprocessing.Semaphore: one slot per *active* explorer process


def engine() -> "Engine":
    if _ENGINE is None:
        raise RuntimeError("no active symx engine")
    return _ENGINE


def active() -> bool:
    return _ENGINE is not None


# ---------------------------------------------------------------------------
# conversion helpers

def rv(x):
    """Python number -> exact z3 real numeral."""
    if isinstance(x, bool):
        return z3.RealVal(int(x))
    if isinstance(x, int):
        return z3.RealVal(x)
    if isinstance(x, float):
        if x != x or x in (float("inf"), float("-inf")):
            raise Unsupported("non-finite float constant %r" % x)
        # the shortest decimal that round-trips (1e-20 -> 1/10^20), not the binary expansion: the model
        # is real arithmetic anyway, and small coefficients keep non-linear queries tractable
        f = Fraction(repr(x))
        if f.denominator == 1:
            return z3.RealVal(f.numerator)
        return z3.RealVal("%d/%d" % (f.numerator, f.denominator))
    if isinstance(x, Fraction):
        return z3.RealVal("%d/%d" % (x.numerator, x.denominator))
    raise Unsupported("cannot make a real from %r" % (type(x),))


def is_sym(x):
    return isinstance(x, (SymReal, SymInt, SymBool))


def to_real(x):
    """-> z3 real term."""
    if isinstance(x, SymReal):
        return x.e
    if isinstance(x, SymInt):
        return z3.ToReal(x.e)
    if isinstance(x, SymBool):
        return z3.If(x.e, z3.RealVal(1), z3.RealVal(0))
    if hasattr(x, "__symx_scalar__"):
        return to_real(x.__symx_scalar__())
    return rv(x)


def to_int(x):
    if isinstance(x, SymInt):
        return x.e
    if isinstance(x, SymBool):
        return z3.If(x.e, z3.IntVal(1), z3.IntVal(0))
    if isinstance(x, bool):
        return z3.IntVal(int(x))
    if isinstance(x, int):
        return z3.IntVal(x)
    if isinstance(x, float) and x == int(x):
        return z3.IntVal(int(x))
    raise Unsupported("cannot make an int from %r" % (type(x),))


def to_bool(x):
    if isinstance(x, SymBool):
        return x.e
    if isinstance(x, bool):
        return z3.BoolVal(x)
    raise Unsupported("cannot make a bool from %r" % (type(x),))


def _is_intlike(x):
    return isinstance(x, SymInt) or (isinstance(x, int) and not isinstance(x, bool)) or isinstance(x, bool)


def _simp(e):
    return z3.simplify(e)


def wrap(e):
    """z3 term -> python constant when it is a literal, else symbolic wrapper (no simplification:
    decide()/fork_int() simplify on demand)."""
    if z3.is_bool(e):
        if z3.is_true(e):
            return True
        if z3.is_false(e):
            return False
        return SymBool(e)
    if z3.is_int(e):
        if z3.is_int_value(e):
            return e.as_long()
        return SymInt(e)
    if z3.is_rational_value(e):
        f = Fraction(e.numerator_as_long(), e.denominator_as_long())
        try:
            v = f.numerator / f.denominator
        except OverflowError:
            return SymReal(e)
        if Fraction(repr(v)) == f:
            return v
    return SymReal(e)


def wrap_s(e):
    """wrap with simplification (use where constant folding matters)"""
    return wrap(_simp(e))


# ---------------------------------------------------------------------------
# symbolic scalars

class _SymBase:
    __slots__ = ("e",)
    __hash__ = None

    def __init__(self, e):
        self.e = e

    def __repr__(self):
        return "%s(%s)" % (type(self).__name__, self.e)

    def __float__(self):
        raise Unsupported("implicit float() of a symbolic value")

    def __complex__(self):
        raise Unsupported("complex() of a symbolic value")

    def __iter__(self):
        raise TypeError("symbolic scalar is not iterable")

    def __len__(self):
        raise TypeError("symbolic scalar has no len()")

    def item(self):
        return self

    def __deepcopy__(self, memo):
        return self          # immutable

    def __copy__(self):
        return self

    def __reduce__(self):
        # real pickle/deepcopy run on symbolic state (C19 / learn's deepcopy)
        return (_rebuild, (type(self).__name__, self.e.sexpr(), _decls_of(self.e)))


def _decls_of(e):
    out = {}
    todo = [e]
    seen = set()
    while todo:
        t = todo.pop()
        if t.get_id() in seen:
            continue
        seen.add(t.get_id())
        if z3.is_app(t):
            if t.num_args() == 0 and t.decl().kind() == z3.Z3_OP_UNINTERPRETED:
                out[t.decl().name()] = t.sort().name()
            elif t.decl().kind() == z3.Z3_OP_UNINTERPRETED:
                out[t.decl().name()] = "UF%d" % t.num_args()
            todo.extend(t.children())
    return out


def _rebuild(kind, sexpr, decls):
    lines = []
    d = {}
    for name, sort in decls.items():
        if sort.startswith("UF"):
            n = int(sort[2:])
            d[name] = z3.Function(name, *([z3.RealSort()] * (n + 1)))
        elif sort == "Int":
            d[name] = z3.Int(name)
        elif sort == "Bool":
            d[name] = z3.Bool(name)
        else:
            d[name] = z3.Real(name)
    sortname = {"SymReal": "Real", "SymInt": "Int", "SymBool": "Bool"}[kind]
    txt = "(declare-const __r %s)\n(assert (= __r %s))" % (sortname, sexpr)
    fs = z3.parse_smt2_string(txt, decls=d)
    term = fs[0].arg(1)
    return {"SymReal": SymReal, "SymInt": SymInt, "SymBool": SymBool}[kind](term)


class SymBool(_SymBase):
    __slots__ = ()

    def __bool__(self):
        return engine().decide(self.e)

    def __and__(self, o):
        return wrap(z3.And(self.e, to_bool(o)))

    __rand__ = __and__

    def __or__(self, o):
        return wrap(z3.Or(self.e, to_bool(o)))

    __ror__ = __or__

    def __invert__(self):
        return wrap(z3.Not(self.e))

    def __eq__(self, o):
        if isinstance(o, (SymBool, bool)):
            return wrap(self.e == to_bool(o))
        if isinstance(o, (int, SymInt)):
            return wrap(to_int(self) == to_int(o))
        raise Unsupported("SymBool == %r" % type(o))

    def __ne__(self, o):
        r = self.__eq__(o)
        return (not r) if isinstance(r, bool) else wrap(z3.Not(r.e))

    def __index__(self):
        return 1 if bool(self) else 0

    __int__ = __index__

    def __add__(self, o):
        return SymInt(to_int(self)) + o

    __radd__ = __add__


def _num_binop(name, fint, freal, intdiv=False):
    def op(self, o):
        if isinstance(o, _ArrLike):
            return NotImplemented
        if not isinstance(o, (SymReal, SymInt, SymBool, int, float, Fraction)):
            if hasattr(o, "__symx_scalar__"):
                o = o.__symx_scalar__()
            else:
                return NotImplemented
        if fint is not None and _is_intlike(self) and _is_intlike(o):
            return wrap(fint(to_int(self), to_int(o)))
        r = freal(to_real(self), to_real(o))
        if _ENGINE is not None and _ENGINE.rounding:
            r = _ENGINE.rounded(r)
        return wrap(r)

    op.__name__ = name
    return op


def _num_rbinop(name, fint, freal):
    def op(self, o):
        if not isinstance(o, (SymReal, SymInt, SymBool, int, float, Fraction)):
            return NotImplemented
        if fint is not None and _is_intlike(self) and _is_intlike(o):
            return wrap(fint(to_int(o), to_int(self)))
        r = freal(to_real(o), to_real(self))
        if _ENGINE is not None and _ENGINE.rounding:
            r = _ENGINE.rounded(r)
        return wrap(r)

    op.__name__ = name
    return op


class _ArrLike:
    """marker base for symbolic arrays (defined in symnp)."""
    __slots__ = ()


def _cmp(name, f):
    def op(self, o):
        if isinstance(o, _ArrLike):
            return NotImplemented
        if hasattr(o, "__symx_scalar__"):
            o = o.__symx_scalar__()
        if o is None:
            if name == "__eq__":
                return False
            if name == "__ne__":
                return True
            raise TypeError("ordering comparison with None")
        if not isinstance(o, (SymReal, SymInt, SymBool, int, float, Fraction)):
            return NotImplemented
        if isinstance(o, float) and (o != o or o in (_INF, -_INF)):
            # symbolic values are finite reals: comparisons with +-inf / nan are constants
            if o != o:
                return name == "__ne__"
            big = o > 0
            return {"__lt__": big, "__le__": big, "__gt__": not big, "__ge__": not big,
                    "__eq__": False, "__ne__": True}[name]
        if _is_intlike(self) and _is_intlike(o):
            return wrap(f(to_int(self), to_int(o)))
        return wrap(f(to_real(self), to_real(o)))

    op.__name__ = name
    return op


_INF = float("inf")


def _div(a, b, site="/"):
    """real division with a well-definedness side condition on b."""
    eng = engine()
    bs = _simp(b)
    if not z3.is_rational_value(bs) and z3.is_app(bs) and bs.decl().kind() == z3.Z3_OP_TO_REAL:
        k = eng.determined(bs.arg(0))
        if k is not None:
            bs = z3.RealVal(k)
    if z3.is_rational_value(bs):
        if bs.numerator_as_long() == 0:
            eng.note_illdefined("division by constant zero", z3.BoolVal(True))
            raise PathAbort()
        return a / bs
    eng.require_nonzero(bs, site)
    if eng.purify_div:
        return eng.quotient(a, bs)
    return a / bs


class SymReal(_SymBase):
    __slots__ = ()

    __add__ = _num_binop("__add__", None, lambda a, b: a + b)
    __radd__ = _num_rbinop("__radd__", None, lambda a, b: a + b)
    __sub__ = _num_binop("__sub__", None, lambda a, b: a - b)
    __rsub__ = _num_rbinop("__rsub__", None, lambda a, b: a - b)
    __mul__ = _num_binop("__mul__", None, lambda a, b: a * b)
    __rmul__ = _num_rbinop("__rmul__", None, lambda a, b: a * b)
    __truediv__ = _num_binop("__truediv__", None, _div)
    __rtruediv__ = _num_rbinop("__rtruediv__", None, _div)
    __lt__ = _cmp("__lt__", lambda a, b: a < b)
    __le__ = _cmp("__le__", lambda a, b: a <= b)
    __gt__ = _cmp("__gt__", lambda a, b: a > b)
    __ge__ = _cmp("__ge__", lambda a, b: a >= b)
    __eq__ = _cmp("__eq__", lambda a, b: a == b)
    __ne__ = _cmp("__ne__", lambda a, b: a != b)

    def __neg__(self):
        return wrap(-self.e)

    def __pos__(self):
        return self

    def __abs__(self):
        return wrap(z3.If(self.e >= 0, self.e, -self.e))

    def __pow__(self, k):
        return sym_pow(self, k)

    def __bool__(self):
        return engine().decide(self.e != 0)

    def __int__(self):
        t = sym_trunc(self)
        return t if isinstance(t, int) else t.__index__()

    def __index__(self):
        raise TypeError("SymReal cannot be used as an index")


class SymInt(_SymBase):
    __slots__ = ()

    __add__ = _num_binop("__add__", lambda a, b: a + b, lambda a, b: a + b)
    __radd__ = _num_rbinop("__radd__", lambda a, b: a + b, lambda a, b: a + b)
    __sub__ = _num_binop("__sub__", lambda a, b: a - b, lambda a, b: a - b)
    __rsub__ = _num_rbinop("__rsub__", lambda a, b: a - b, lambda a, b: a - b)
    __mul__ = _num_binop("__mul__", lambda a, b: a * b, lambda a, b: a * b)
    __rmul__ = _num_rbinop("__rmul__", lambda a, b: a * b, lambda a, b: a * b)
    __truediv__ = _num_binop("__truediv__", None, _div)
    __rtruediv__ = _num_rbinop("__rtruediv__", None, _div)
    __lt__ = _cmp("__lt__", lambda a, b: a < b)
    __le__ = _cmp("__le__", lambda a, b: a <= b)
    __gt__ = _cmp("__gt__", lambda a, b: a > b)
    __ge__ = _cmp("__ge__", lambda a, b: a >= b)
    __eq__ = _cmp("__eq__", lambda a, b: a == b)
    __ne__ = _cmp("__ne__", lambda a, b: a != b)

    def __floordiv__(self, o):
        if isinstance(o, int) and o > 0:
            return wrap(self.e / z3.IntVal(o))  # z3 int div == floor for positive divisor
        raise Unsupported("SymInt // %r" % (o,))

    def __mod__(self, o):
        if isinstance(o, int) and o > 0:
            return wrap(self.e % z3.IntVal(o))
        raise Unsupported("SymInt %% %r" % (o,))

    def __neg__(self):
        return wrap(-self.e)

    def __pos__(self):
        return self

    def __abs__(self):
        return wrap(z3.If(self.e >= 0, self.e, -self.e))

    def __pow__(self, k):
        return sym_pow(self, k)

    def __bool__(self):
        return engine().decide(self.e != 0)

    def __index__(self):
        return engine().fork_int(self.e)

    __int__ = __index__


def sym_trunc(x):
    """int(x) semantics (truncation toward zero) without leaving the symbolic domain."""
    if isinstance(x, SymInt):
        return x
    if isinstance(x, SymBool):
        return wrap(to_int(x))
    if isinstance(x, SymReal):
        e = x.e
        return wrap(z3.If(e >= 0, z3.ToInt(e), -z3.ToInt(-e)))
    return int(x)


def sym_pow(x, k):
    if isinstance(k, (SymReal, SymInt)):
        raise Unsupported("symbolic exponent")
    if k == 2:
        return x * x
    if k == 1:
        return x
    if k == 0.5:
        from . import symmath
        return symmath.sqrt(x)
    if isinstance(k, int) and k >= 0:
        r = 1
        for _ in range(k):
            r = r * x
        return r
    raise Unsupported("power %r" % (k,))


def sym_max(a, b):
    if not is_sym(a) and not is_sym(b):
        return a if a >= b else b  # numpy.maximum on plain scalars
    for u, v in ((a, b), (b, a)):
        if isinstance(u, float) and u in (_INF, -_INF):
            return u if u > 0 else v
    if _is_intlike(a) and _is_intlike(b):
        ea, eb = to_int(a), to_int(b)
    else:
        ea, eb = to_real(a), to_real(b)
    return wrap(z3.If(ea >= eb, ea, eb))


def sym_min(a, b):
    if not is_sym(a) and not is_sym(b):
        return a if a <= b else b
    for u, v in ((a, b), (b, a)):
        if isinstance(u, float) and u in (_INF, -_INF):
            return v if u > 0 else u
    if _is_intlike(a) and _is_intlike(b):
        ea, eb = to_int(a), to_int(b)
    else:
        ea, eb = to_real(a), to_real(b)
    return wrap(z3.If(ea <= eb, ea, eb))


def sym_ite(c, a, b):
    if isinstance(c, bool):
        return a if c else b
    if _is_intlike(a) and _is_intlike(b):
        return wrap(z3.If(to_bool(c), to_int(a), to_int(b)))
    if isinstance(a, (SymBool, bool)) and isinstance(b, (SymBool, bool)):
        return wrap(z3.If(to_bool(c), to_bool(a), to_bool(b)))
    return wrap(z3.If(to_bool(c), to_real(a), to_real(b)))


def sym_eq(a, b):
    """value equality usable on python and symbolic scalars -> bool | SymBool"""
    if not is_sym(a) and not is_sym(b):
        return a == b
    if isinstance(a, (SymBool, bool)) and isinstance(b, (SymBool, bool)):
        return wrap(to_bool(a) == to_bool(b))
    if _is_intlike(a) and _is_intlike(b):
        return wrap(to_int(a) == to_int(b))
    return wrap(to_real(a) == to_real(b))


def zterm(x):
    """python/symbolic scalar -> z3 term of its natural sort."""
    if isinstance(x, (SymReal, SymInt, SymBool)):
        return x.e
    if isinstance(x, bool):
        return z3.BoolVal(x)
    if isinstance(x, int):
        return z3.IntVal(x)
    return rv(x)


class SymList(list):
    """list whose elements stay explicit; symbolic *indices* become ite-chains."""

    def __getitem__(self, i):
        if isinstance(i, SymInt):
            n = list.__len__(self)
            k = engine().determined(i.e)
            if k is not None:
                if k < 0:
                    k += n      # python list semantics
                return list.__getitem__(self, k)
            engine().require(z3.And(i.e >= 0, i.e < n), "list index in range")
            acc = list.__getitem__(self, n - 1)
            for k in range(n - 2, -1, -1):
                acc = sym_ite(wrap(i.e == k), list.__getitem__(self, k), acc)
            return acc
        return list.__getitem__(self, i)

    def __setitem__(self, i, v):
        if isinstance(i, SymInt):
            n = list.__len__(self)
            k = engine().determined(i.e)
            if k is not None:
                list.__setitem__(self, k, v)
                return
            engine().require(z3.And(i.e >= 0, i.e < n), "list index in range")
            for k in range(n):
                old = list.__getitem__(self, k)
                list.__setitem__(self, k, sym_ite(wrap(i.e == k), v, old))
            return
        list.__setitem__(self, i, v)

    def __reduce__(self):
        return (SymList, (list(self),))


# ---------------------------------------------------------------------------
# engine

UNIT_ROUNDOFF = z3.RealVal("1/9007199254740992")      # 2^-53


class FreshSolver:
    """Solver facade that re-solves from scratch on every check().  z3's incremental core (used as
    soon as push/pop appear) is much weaker on non-linear real arithmetic than the tactic pipeline a
    fresh solver gets; harnesses with few paths but NRA obligations use this."""

    def __init__(self, timeout_ms, seed=0, tactic=None):
        self.frames = [[]]
        self.timeout_ms = timeout_ms
        self.seed = seed
        self.tactic = tactic
        self._model = None

    def set(self, key, val):
        if key == "timeout":
            self.timeout_ms = val

    def add(self, *cs):
        for c in cs:
            if isinstance(c, (list, tuple)):
                self.frames[-1].extend(c)
            else:
                self.frames[-1].append(c)

    def push(self):
        self.frames.append([])

    def pop(self):
        self.frames.pop()

    def reset(self):
        self.frames = [[]]

    def check(self, *assumptions):
        s = z3.Tactic(self.tactic).solver() if self.tactic else z3.Solver()
        s.set("timeout", self.timeout_ms)
        for f in self.frames:
            if f:
                s.add(*f)
        r = s.check(*assumptions)
        self._model = s.model() if r == z3.sat else None
        return r

    def model(self):
        return self._model


class Decision:
    __slots__ = ("kind", "options", "idx", "raw")

    def __init__(self, kind, options, raw):
        self.kind = kind
        self.options = options
        self.idx = 0
        self.raw = raw


class Leaf:
    """result of one explored path"""
    __slots__ = ("path", "obligations", "failed", "illdefined", "info", "aborted")


class Engine:
    def __init__(self, seed=0, solver_timeout_ms=60000, max_paths=None, logic=None, deadline=None, mode=None):
        self.mode = mode or os.environ.get("SYMX_MODE", "fork")
        self.fork_live = False
        self.emitted = {}
        self.exit_hooks = []
        self.path = []
        self.errors = []
        self.child_hook = None
        self.purify_div = False
        self.nice_bound = 1000000
        self.max_violations_per_leaf = 3
        self.rounding = False
        self.enum_models = 0
        self._quot = {}
        self._kids = []
        self._owns_slot = False
        self.deadline = deadline
        self.seed = seed
        self.solver_timeout_ms = solver_timeout_ms
        self.max_paths = max_paths
        self.logic = logic
        self.stats = dict(paths=0, aborted=0, branch_points=0, queries=0, unsat=0, sat=0,
                          unknown=0, solver_time=0.0, obligations=0, discharged=0,
                          forks=0, max_depth=0)
        self.violations = []      # dicts: name, model (dict str->str), path, info
        self.illdefined = []
        self.unknowns = []
        self.samples = []
        self.exhaustive = True
        self._fresh = 0
        self._memo = {}
        self._new_solver()
        self.stack = []
        self.pos = 0
        self._lazy = []
        self.pc = []
        self._pending = []
        self.model = None
        self.on_leaf = None
        self.path_hooks = []
        self.track_vars = []

    # -- solver plumbing
    def _new_solver(self):
        if self.logic == "fresh":
            self.solver = FreshSolver(self.solver_timeout_ms, self.seed)
            return
        self.solver = z3.Solver() if self.logic is None else z3.SolverFor(self.logic)
        self.solver.set("timeout", self.solver_timeout_ms)
        self.solver.set("random_seed", self.seed % (2 ** 30))

    def _check(self, *assumptions):
        self._flush()
        t0 = time.time()
        r = self.solver.check(*assumptions)
        self.stats["solver_time"] += time.time() - t0
        self.stats["queries"] += 1
        self.stats[str(r)] += 1
        return r

    def memo(self, key, build):
        """cache z3 term construction across the re-executions of one exploration"""
        c = self._memo
        if key not in c:
            c[key] = build()
        return c[key]

    def fresh(self, prefix="v"):
        self._fresh += 1
        return "%s!%d" % (prefix, self._fresh)

    def real(self, name):
        v = z3.Real(name)
        self.track_vars.append(v)
        return SymReal(v)

    def int(self, name, lo=None, hi=None):
        v = z3.Int(name)
        self.track_vars.append(v)
        if lo is not None:
            self.assume(v >= lo)
        if hi is not None:
            self.assume(v <= hi)
        return SymInt(v)

    def bool(self, name):
        v = z3.Bool(name)
        self.track_vars.append(v)
        return SymBool(v)

    # -- path condition
    def _add(self, c):
        self._lazy.append(c)
        self.pc.append(c)

    def _flush(self):
        if self._lazy:
            self.solver.add(*self._lazy)
            self._lazy = []

    def _ensure_model(self):
        if self.model is None:
            r = self._check()
            if r == z3.sat:
                self.model = self.solver.model()
            elif r == z3.unsat:
                raise PathAbort()
            else:
                self.unknowns.append("path-condition")
                self.exhaustive = False
                raise PathAbort()
        return self.model

    def assume(self, c):
        if isinstance(c, SymBool):
            c = c.e
        if isinstance(c, bool):
            if not c:
                raise PathAbort()
            return
        self._add(c)
        if self.model is not None:
            if not z3.is_true(self.model.eval(c, model_completion=True)):
                self.model = None
        # feasibility is checked lazily (next decision / leaf)

    def decide(self, raw):
        """branch on z3 Bool `raw`; returns the python bool taken on this path."""
        if self.fork_live:
            return self._decide_fork(raw)
        if self.pos < len(self.stack):
            d = self.stack[self.pos]
            if d.kind == "b" and (d.raw is None or d.raw.eq(raw)):
                if d.raw is None:
                    d.raw = raw
                self.pos += 1
                v = d.options[d.idx]
                self._add(raw if v else z3.Not(raw))
                self.model = None
                return v
            cond = _simp(raw)
            if z3.is_true(cond):
                return True
            if z3.is_false(cond):
                return False
            raise RuntimeError("non-deterministic replay at decision %d" % self.pos)
        cond = _simp(raw)
        if z3.is_true(cond):
            return True
        if z3.is_false(cond):
            return False
        if self.deadline is not None and time.time() > self.deadline:
            raise BudgetExceeded()
        m = self._ensure_model()
        v = z3.is_true(m.eval(cond, model_completion=True))
        other = z3.Not(cond) if v else cond
        self._flush()
        self.solver.push()
        self.solver.add(other)
        r = self._check()
        self.solver.pop()
        if r == z3.unknown:
            self.unknowns.append("branch")
        if r == z3.unsat:
            d = Decision("b", [v], raw)   # forced: recorded so that replay stays aligned
        else:
            self.stats["branch_points"] += 1
            d = Decision("b", [v, not v], raw)
        self.stack.append(d)
        self.pos += 1
        self.stats["max_depth"] = max(self.stats["max_depth"], len(self.stack))
        self._add(raw if v else z3.Not(raw))
        return v

    def fork_int(self, raw):
        """concretise integer term by forking over all its feasible values."""
        if z3.is_int_value(raw):
            return raw.as_long()
        if self.fork_live:
            return self._fork_int_fork(raw)
        if self.pos < len(self.stack):
            d = self.stack[self.pos]
            if d.kind == "i" and (d.raw is None or d.raw.eq(raw)):
                if d.raw is None:
                    d.raw = raw
                self.pos += 1
                v = d.options[d.idx]
                self._add(raw == v)
                self.model = None
                return v
            e = _simp(raw)
            if z3.is_int_value(e):
                return e.as_long()
            raise RuntimeError("non-deterministic replay at fork %d" % self.pos)
        e = _simp(raw)
        if z3.is_int_value(e):
            return e.as_long()
        m = self._ensure_model()
        v0 = m.eval(e, model_completion=True).as_long()
        opts = [v0]
        self._flush()
        self.solver.push()
        while True:
            self.solver.add(e != opts[-1])
            r = self._check()
            if r != z3.sat:
                if r == z3.unknown:
                    self.unknowns.append("fork")
                    self.exhaustive = False
                break
            opts.append(self.solver.model().eval(e, model_completion=True).as_long())
            if len(opts) > 4096:
                self.solver.pop()
                raise Unsupported("fork over more than 4096 values")
        self.solver.pop()
        self._add(raw == v0)
        if len(opts) > 1:
            self.stats["forks"] += 1
        self.stack.append(Decision("i", opts, raw))
        self.pos += 1
        return v0

    # -- fork-mode exploration: the process forks at every real branch point; the child takes the
    #    alternative and is waited for (sequential DFS), so no path is ever re-executed.
    def _spawn(self):
        """fork; returns (pid, concurrent).  Child: pid == 0."""
        conc = SLOTS is not None and SLOTS.acquire(block=False)
        pid = os.fork()
        if pid == 0:
            self._owns_slot = bool(conc)
            self._kids = []
            return 0, conc
        if conc:
            self._kids.append(pid)
        return pid, conc

    def _reset_child(self):
        if self.child_hook is not None:
            self.child_hook(self)
        for k in self.stats:
            self.stats[k] = 0 if not isinstance(self.stats[k], float) else 0.0
        self.violations = []
        self.illdefined = []
        self.unknowns = []
        self.samples = []
        self.emitted = {}
        self.errors = []
        self.exhaustive = True
        self._is_child = True

    def _wait(self, pid):
        _, status = os.waitpid(pid, 0)
        if status != 0:
            self.errors.append("explorer child exited with status %r at path %s" % (status, self.path_string()))

    def _decide_fork(self, raw):
        cond = _simp(raw)
        if z3.is_true(cond):
            return True
        if z3.is_false(cond):
            return False
        if self.deadline is not None and time.time() > self.deadline:
            raise BudgetExceeded()
        m = self._ensure_model()
        v = z3.is_true(m.eval(cond, model_completion=True))
        other = z3.Not(cond) if v else cond
        self._flush()
        self.solver.push()
        self.solver.add(other)
        r = self._check()
        m2 = self.solver.model() if r == z3.sat else None
        self.solver.pop()
        if r == z3.unknown:
            self.unknowns.append("branch")
        if r != z3.unsat:
            self.stats["branch_points"] += 1
            pid, conc = self._spawn()
            if pid == 0:
                self.path.append("T" if not v else "F")
                self._reset_child()
                self._add(other)
                self.model = m2
                return not v
            if not conc:
                self._wait(pid)
            self.path.append("T" if v else "F")
        self._add(cond if v else z3.Not(cond))
        return v

    def _fork_int_fork(self, raw):
        e = _simp(raw)
        if z3.is_int_value(e):
            return e.as_long()
        if self.deadline is not None and time.time() > self.deadline:
            raise BudgetExceeded()
        m = self._ensure_model()
        v0 = m.eval(e, model_completion=True).as_long()
        opts = [v0]
        models = [m]
        self._flush()
        self.solver.push()
        while True:
            self.solver.add(e != opts[-1])
            r = self._check()
            if r != z3.sat:
                if r == z3.unknown:
                    self.unknowns.append("fork")
                    self.exhaustive = False
                break
            mm = self.solver.model()
            models.append(mm)
            opts.append(mm.eval(e, model_completion=True).as_long())
            if len(opts) > 4096:
                self.solver.pop()
                raise Unsupported("fork over more than 4096 values")
        self.solver.pop()
        if len(opts) > 1:
            self.stats["forks"] += 1
            for k in range(1, len(opts)):
                pid, conc = self._spawn()
                if pid == 0:
                    self.path.append("<%d>" % opts[k])
                    self._reset_child()
                    self._add(e == opts[k])
                    self.model = models[k]
                    return opts[k]
                if not conc:
                    self._wait(pid)
            self.path.append("<%d>" % v0)
        self._add(e == v0)
        return v0

    def determined(self, e):
        """if integer term e has exactly one feasible value on this path return it, else None"""
        e = _simp(e)
        if z3.is_int_value(e):
            return e.as_long()
        m = self._ensure_model()
        v = m.eval(e, model_completion=True).as_long()
        self._flush()
        self.solver.push()
        self.solver.add(e != v)
        r = self._check()
        self.solver.pop()
        if r == z3.unsat:
            return v
        return None

    def rounded(self, t):
        """standard rounding model: fl(t) = t * (1 + d), |d| <= 2^-53 (one fresh d per operation)"""
        d = z3.Real(self.fresh("rnd"))
        self.assume(z3.And(d >= -UNIT_ROUNDOFF, d <= UNIT_ROUNDOFF))
        return t * (1 + d)

    def quotient(self, a, b):
        """a / b as a fresh variable q with q*b = a (b != 0 already required): keeps NRA queries polynomial"""
        key = (a.get_id(), b.get_id())
        c = self._quot
        if c.get("pc") is not self.pc:
            c.clear()
            c["pc"] = self.pc
        if key not in c:
            q = z3.Real(self.fresh("quot"))
            self.assume(q * b == a)
            c[key] = (a, b, q)
        return c[key][2]

    def emit(self, key, obj):
        self.emitted.setdefault(key, []).append(obj)

    def _write_record(self, fd):
        for h in self.exit_hooks:
            try:
                h(self)
            except Exception as ex:  # pragma: no cover
                self.errors.append("exit hook: %r" % (ex,))
        viol = []
        for v in self.violations:
            v = dict(v)
            v.pop("_m", None)
            viol.append(v)
        rec = dict(stats=self.stats, violations=viol, illdefined=self.illdefined, unknowns=self.unknowns,
                   samples=self.samples, emitted=self.emitted, exhaustive=self.exhaustive, errors=self.errors)
        blob = pickle.dumps(rec, protocol=4)
        os.write(fd, struct.pack("<Q", len(blob)) + blob)

    def _explore_fork(self, fn, on_leaf):
        global _ENGINE
        tf = tempfile.NamedTemporaryFile(prefix="symx-", suffix=".rec", delete=False)
        tf.close()
        fd = os.open(tf.name, os.O_WRONLY | os.O_APPEND)
        pid = os.fork()
        if pid == 0:
            # ---- explorer (and, after forks, its descendants)
            code = 0
            self._owns_slot = False
            self._kids = []
            try:
                if SLOTS is not None:
                    SLOTS.acquire()
                    self._owns_slot = True
                _ENGINE = self
                self.fork_live = True
                self._is_child = True
                self.pc = []
                self._lazy = []
                self._pending = []
                self.track_vars = []
                self.path = []
                self.model = None
                try:
                    result = fn()
                    self._ensure_model()
                    self.stats["paths"] += 1
                    if on_leaf is not None:
                        on_leaf(self, result)
                    self._discharge()
                    import zlib
                    if zlib.crc32(self.path_string().encode()) % 199 == 0 or not self.path:
                        self.samples.append(dict(path=self.path_string(),
                                                 path_condition=[str(c)[:200] for c in self.pc[:12]],
                                                 n_constraints=len(self.pc)))
                except PathAbort:
                    self.stats["aborted"] += 1
                except BudgetExceeded:
                    self.exhaustive = False
                except Exception as ex:
                    import traceback
                    self.errors.append("%s: %s\n%s" % (type(ex).__name__, ex, traceback.format_exc()[-3000:]))
                self._write_record(fd)
            except BaseException as ex:  # pragma: no cover
                code = 1
                try:
                    os.write(2, ("symx explorer crashed: %r\n" % (ex,)).encode())
                except Exception:
                    pass
            finally:
                try:
                    if self._owns_slot:
                        SLOTS.release()
                    for kid in self._kids:
                        _, st = os.waitpid(kid, 0)
                        if st != 0:
                            code = 1
                finally:
                    os._exit(code)
        # ---- collector
        os.close(fd)
        _, status = os.waitpid(pid, 0)
        if status != 0:
            self.errors.append("root explorer exited with status %r" % (status,))
        data = open(tf.name, "rb").read()
        os.unlink(tf.name)
        off = 0
        nsamp = 0
        while off + 8 <= len(data):
            (ln,) = struct.unpack_from("<Q", data, off)
            off += 8
            rec = pickle.loads(data[off:off + ln])
            off += ln
            for k, v in rec["stats"].items():
                if k == "max_depth":
                    continue
                self.stats[k] = self.stats.get(k, 0) + v
            self.violations.extend(rec["violations"])
            self.illdefined.extend(rec["illdefined"])
            self.unknowns.extend(rec["unknowns"])
            if len(self.samples) < 3:
                self.samples.extend(rec["samples"])
            for k, v in rec["emitted"].items():
                self.emitted.setdefault(k, []).extend(v)
            self.exhaustive = self.exhaustive and rec["exhaustive"]
            self.errors.extend(rec["errors"])
        return self.stats

    def choose(self, n, tag="choice"):
        """harness-level nondeterministic choice among range(n) (explored exhaustively)."""
        v = z3.Int(self.fresh(tag))
        self._add(z3.And(v >= 0, v < n))
        return self.fork_int(v)

    # -- side conditions
    def require(self, c, what):
        """well-definedness requirement: if it can fail on this path, record it and continue under c."""
        c = _simp(c)
        if z3.is_true(c):
            return
        self._flush()
        self.solver.push()
        self.solver.add(z3.Not(c))
        r = self._check()
        if r == z3.sat:
            m = self.solver.model()
            rec = dict(what=what, model=self._model_dict(m), path=self.path_string())
            if self.enum_models:
                more = []
                ins = [v for v in self.track_vars]
                for _ in range(self.enum_models):
                    self.solver.add(z3.Or([v != m.eval(v, model_completion=True) for v in ins]))
                    if self._check() != z3.sat:
                        break
                    m = self.solver.model()
                    more.append(self._model_dict(m))
                rec["more_models"] = more
            self.illdefined.append(rec)
        elif r == z3.unknown:
            self.unknowns.append("require:" + what)
        self.solver.pop()
        if r != z3.unsat:
            self._add(c)
            self.model = None

    def require_nonzero(self, den, site):
        self.require(den != 0, "nonzero denominator (%s)" % site)

    def note_illdefined(self, what, cond):
        self.illdefined.append(dict(what=what, model={}, path=self.path_string()))

    # -- obligations
    def check(self, name, prop, info=None):
        """leaf obligation: prop must be valid under the path condition."""
        if isinstance(prop, SymBool):
            prop = prop.e
        if isinstance(prop, bool):
            prop = z3.BoolVal(prop)
        self._pending.append((name, prop, info))

    def check_now(self, name, prop, info=None):
        """obligation discharged immediately under the current path condition"""
        saved = self._pending
        self._pending = []
        self.check(name, prop, info)
        self._discharge()
        self._pending = saved

    def _discharge(self):
        pend = self._pending
        self._pending = []
        if not pend:
            return
        self.stats["obligations"] += len(pend)
        allp = z3.And([p for _, p, _ in pend]) if len(pend) > 1 else pend[0][1]
        self._flush()
        self.solver.push()
        self.solver.add(z3.Not(allp))
        r = self._check()
        self.solver.pop()
        if r == z3.unsat:
            self.stats["discharged"] += len(pend)
            return
        found = 0
        for name, p, info in pend:
            if found >= self.max_violations_per_leaf:
                break        # enough counterexamples from this leaf; the rest stays undischarged (not counted)
            if self.deadline is not None and time.time() > self.deadline:
                # the configuration's deadline passed while this leaf was being decided: the remaining
                # obligations stay undecided (reported, never counted as discharged)
                self.unknowns.append("obligation:%s (configuration deadline reached)" % name)
                self.exhaustive = False
                continue
            self._flush()
            self.solver.push()
            self.solver.add(z3.Not(p))
            r = self._check()
            if r == z3.unsat:
                self.stats["discharged"] += 1
            elif r == z3.sat:
                found += 1
                m = self._nicer(self.solver.model())
                self.violations.append(dict(name=name, model=self._model_dict(m), path=self.path_string(),
                                            info=info(m) if callable(info) else info, _m=m))
            else:
                self.unknowns.append("obligation:" + name)
            self.solver.pop()

    def _model_dict(self, m):
        out = {}
        for v in self.track_vars:
            val = m.eval(v, model_completion=True)
            out[str(v)] = str(val)
        return out

    def eval_model(self, m, x):
        """evaluate python/symbolic scalar x in z3 model m -> Fraction|int|bool"""
        if not is_sym(x):
            return x
        val = m.eval(x.e, model_completion=True)
        if z3.is_bool(val):
            return z3.is_true(val)
        if z3.is_int_value(val):
            return val.as_long()
        if z3.is_rational_value(val):
            return Fraction(val.numerator_as_long(), val.denominator_as_long())
        if z3.is_algebraic_value(val):
            a = val.approx(30)
            return Fraction(a.numerator_as_long(), a.denominator_as_long())
        raise Unsupported("cannot evaluate %s" % val)

    def path_string(self):
        if self.fork_live:
            return "".join(self.path)
        return "".join(("T" if d.options[d.idx] else "F") if d.kind == "b" else "<%d>" % d.options[d.idx]
                       for d in self.stack[:self.pos])

    def path_prefix(self):
        return [(d.kind, list(d.options), d.idx) for d in self.stack]

    def _nicer(self, m):
        """prefer a model whose real inputs have moderate magnitude (replays convert them to float64, and
        values next to sys.float_info.max would collapse onto it); falls back to m"""
        reals = [v for v in self.track_vars if z3.is_real(v)]
        if not reals or self.nice_bound is None:
            return m
        B = self.nice_bound
        self._flush()
        self.solver.push()
        self.solver.add(z3.And([z3.And(v <= B, v >= -B) for v in reals]))
        r = self._check()
        if r == z3.sat:
            m = self.solver.model()
        self.solver.pop()
        return m

    def witness(self):
        """a model of the current path condition (for witness replay)."""
        return self._nicer(self._ensure_model())

    # -- exploration
    def explore(self, fn, prefix=None, on_leaf=None):
        """run fn() over all feasible paths.  on_leaf(engine, result) is called with the
        engine still holding the path condition of that leaf."""
        global _ENGINE
        if self.mode == "fork" and not prefix:
            return self._explore_fork(fn, on_leaf)
        prev = _ENGINE
        _ENGINE = self
        try:
            self.stack = []
            base = 0
            if prefix:
                for kind, options, idx in prefix:
                    d = Decision(kind, list(options), None)
                    d.idx = idx
                    self.stack.append(d)
                base = len(self.stack)
            while True:
                if (self.max_paths is not None and self.stats["paths"] >= self.max_paths) or \
                        (self.deadline is not None and time.time() > self.deadline):
                    self.exhaustive = False
                    self.unexplored_prefix = self.path_prefix()
                    break
                self.solver.reset()
                self.solver.set("timeout", self.solver_timeout_ms)
                self.pc = []
                self._lazy = []
                self.pos = 0
                self.model = None
                self._pending = []
                self.track_vars = []
                self._fresh = 0
                aborted = False
                result = None
                try:
                    result = fn()
                    self._ensure_model()
                except PathAbort:
                    aborted = True
                if self.pos < len(self.stack):
                    if not aborted:
                        raise RuntimeError("replay ended before consuming its prefix")
                    del self.stack[self.pos:]
                if aborted:
                    self.stats["aborted"] += 1
                else:
                    self.stats["paths"] += 1
                    if on_leaf is not None:
                        on_leaf(self, result)
                    self._discharge()
                    if len(self.samples) < 3:
                        self.samples.append(dict(path=self.path_string(),
                                                 path_condition=[str(c)[:200] for c in self.pc[:12]],
                                                 n_constraints=len(self.pc)))
                # backtrack
                while len(self.stack) > base and self.stack[-1].idx == len(self.stack[-1].options) - 1:
                    self.stack.pop()
                if len(self.stack) <= base:
                    break
                self.stack[-1].idx += 1
        finally:
            _ENGINE = prev
        return self.stats
