"""symx.vfs -- in-memory virtual file system used by the numpy / json / struct / open stubs.

Contract (part of the trusted base, exercised concretely by the conformance gates):
 * a table written with delimiter a parses under delimiter b iff a == b or every row has one column;
   numpy's default '%.18e' text round-trips a float64 exactly;
 * json.dump / json.load round-trip ints, floats, strings, lists and dicts;
 * a binary OPF file is a sequence of typed 4-byte fields ('i' int32, 'f' float32); struct.unpack(fmt, data)
   hands out the fields covered by the bytes that were read, in order, and requires fmt to match their types;
 * files opened in binary mode for pickle are real in-memory byte streams.
"""
import io
import copy

FILES = {}


def reset():
    FILES.clear()


def write_table(name, rows, delimiter):
    FILES[str(name)] = ("table", [list(r) for r in rows], delimiter)


def read_table(name, delimiter):
    name = str(name)
    if name not in FILES:
        raise OSError("%s not found." % name)
    kind, rows, d = FILES[name]
    if kind != "table":
        raise ValueError("could not convert string to float")
    if delimiter is None:
        delimiter = " "
    ncols = max(len(r) for r in rows) if rows else 0
    if ncols > 1 and d != delimiter:
        raise ValueError("could not convert string '...' to float64 (file written with delimiter %r, read with %r)" % (d, delimiter))
    return [list(r) for r in rows]


def write_binary(name, fields):
    """fields: list of (kind, value) with kind in 'i', 'f'"""
    FILES[str(name)] = ("binary", list(fields), None)


class SymBytes:
    def __init__(self, fields):
        self.fields = fields

    def __len__(self):
        return 4 * len(self.fields)


class _BinReader:
    def __init__(self, name, fields):
        self.name = name
        self.fields = fields
        self.pos = 0

    def read(self, size=-1):
        if size is None or size < 0:
            size = 4 * (len(self.fields) - self.pos)
        if size % 4:
            raise ValueError("vfs: unaligned binary read of %d bytes" % size)
        k = size // 4
        chunk = self.fields[self.pos:self.pos + k]
        self.pos += len(chunk)
        return SymBytes(chunk)

    def __enter__(self):
        return self

    def __exit__(self, *a):
        return False

    def close(self):
        pass


class _TextHandle:
    def __init__(self, name, mode):
        self.name = name
        self.mode = mode

    def __enter__(self):
        return self

    def __exit__(self, *a):
        return False

    def close(self):
        pass


class _BytesHandle(io.BytesIO):
    def __init__(self, name, mode):
        self._name = name
        self._mode = mode
        if "r" in mode:
            kind, data, _ = FILES[name]
            super().__init__(data)
        else:
            super().__init__()

    def close(self):
        if "w" in self._mode and not self.closed:
            FILES[self._name] = ("bytes", self.getvalue(), None)
        super().close()

    def __exit__(self, *a):
        self.close()
        return False


def open_file(name, mode="r"):
    name = str(name)
    if "b" in mode:
        if "r" in mode:
            if name not in FILES:
                raise FileNotFoundError(name)
            kind, data, _ = FILES[name]
            if kind == "binary":
                return _BinReader(name, data)
            if kind == "bytes":
                return _BytesHandle(name, mode)
            raise ValueError("vfs: %s is not a binary file" % name)
        return _BytesHandle(name, mode)
    if "r" in mode and name not in FILES:
        raise FileNotFoundError(name)
    return _TextHandle(name, mode)


def write_json(name, obj):
    FILES[str(name)] = ("json", copy.deepcopy(obj), None)


def read_json(name):
    name = str(name)
    if name not in FILES:
        raise OSError("%s not found." % name)
    kind, obj, _ = FILES[name]
    if kind != "json":
        raise ValueError("not a json file")
    return copy.deepcopy(obj)
