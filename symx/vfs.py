"""symx.vfs -- in-memory virtual file system used by the numpy/json/open stubs.

Contract (part of the trusted base): a table written with delimiter a parses under
delimiter b iff a == b or every row has a single column; default-format decimal text
round-trips a float64 exactly.
"""
FILES = {}


class VfsError(Exception):
    pass


def reset():
    FILES.clear()


def write_table(name, rows, delimiter):
    FILES[str(name)] = ("table", [list(r) for r in rows], delimiter)


def read_table(name, delimiter):
    name = str(name)
    if name not in FILES:
        raise OSError("%s not found." % name)
    kind, rows, d = FILES[name]
    if kind != "table":
        raise ValueError("could not convert string to float")
    if delimiter is None:
        delimiter = " "
    ncols = max(len(r) for r in rows) if rows else 0
    if ncols > 1 and d != delimiter:
        raise ValueError("could not convert string '...' to float64 (written with delimiter %r, read with %r)" % (d, delimiter))
    return [list(r) for r in rows]


def write_json(name, obj):
    import copy
    FILES[str(name)] = ("json", copy.deepcopy(obj), None)


def read_json(name):
    name = str(name)
    if name not in FILES:
        raise OSError("%s not found." % name)
    kind, obj, _ = FILES[name]
    if kind != "json":
        raise ValueError("not a json file")
    import copy
    return copy.deepcopy(obj)
