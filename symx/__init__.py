"""symx -- symbolic twin execution of opfython's real source with z3."""
