"""symx.symmath -- stand-in for `math` (and numpy's transcendental functions).

sqrt is characterised exactly over the reals (r >= 0 and r*r == x, radicand >= 0 as a
well-definedness side condition).  log/exp are uninterpreted functions with axioms
instantiated on the occurring arguments (listed in AXIOMS, recorded in evidence).
"""
import math as _m

import z3

from . import core
from .core import SymReal, SymInt, SymBool, is_sym, to_real, wrap, engine

pi = _m.pi
e = _m.e
inf = _m.inf
nan = _m.nan

LOG = z3.Function("log", z3.RealSort(), z3.RealSort())
EXP = z3.Function("exp", z3.RealSort(), z3.RealSort())

AXIOMS = [
    "sqrt(t) = r with r >= 0 and r*r = t (exact); side condition t >= 0",
    "exp(t) > 0; exp(0) = 1 (by constant folding); exp strictly increasing on occurring arguments",
    "log(t): side condition t > 0; log(1) = 0; strictly increasing on occurring arguments; "
    "1 - 1/t <= log t <= t - 1",
]


def _state():
    eng = engine()
    st = getattr(eng, "_symmath", None)
    if st is None or st.get("path_id") is not eng.pc:
        st = dict(path_id=eng.pc, sqrt={}, log=[], exp=[])
        eng._symmath = st
    return st


def sqrt(x):
    if not is_sym(x):
        if isinstance(x, float) and x != x:
            return x
        if x < 0:
            return nan
        return _m.sqrt(x)
    eng = engine()
    t = z3.simplify(to_real(x))
    st = _state()
    key = t.get_id()
    if key in st["sqrt"]:
        return st["sqrt"][key][1]
    eng.require(t >= 0, "non-negative radicand")
    r = z3.Real(eng.fresh("sqrt"))
    eng.assume(z3.And(r >= 0, r * r == t))
    res = SymReal(r)
    st["sqrt"][key] = (t, res)
    return res


def exp(x):
    if not is_sym(x):
        return _m.exp(x)
    eng = engine()
    t = z3.simplify(to_real(x))
    st = _state()
    y = EXP(t)
    ax = [y > 0, z3.Implies(t == 0, y == 1), z3.Implies(t < 0, y < 1), z3.Implies(t > 0, y > 1)]
    for (t2, y2) in st["exp"]:
        if t2.eq(t):
            return SymReal(y)
        ax.append(z3.Implies(t < t2, y < y2))
        ax.append(z3.Implies(t2 < t, y2 < y))
    st["exp"].append((t, y))
    eng.assume(z3.And(ax))
    return SymReal(y)


def log(x):
    if not is_sym(x):
        if x <= 0:
            if x == 0:
                return -inf
            return nan
        return _m.log(x)
    eng = engine()
    t = z3.simplify(to_real(x))
    st = _state()
    for (t2, y2) in st["log"]:
        if t2.eq(t):
            return SymReal(y2)
    eng.require(t > 0, "positive log argument")
    y = LOG(t)
    ax = [z3.Implies(t == 1, y == 0), z3.Implies(t > 1, y > 0), z3.Implies(t < 1, y < 0),
          y <= t - 1, y * t >= t - 1]
    for (t2, y2) in st["log"]:
        ax.append(z3.Implies(t < t2, y < y2))
        ax.append(z3.Implies(t2 < t, y2 < y))
        ax.append(z3.Implies(t == t2, y == y2))
    st["log"].append((t, y))
    eng.assume(z3.And(ax))
    return SymReal(y)


def fabs(x):
    return abs(x)


def floor(x):
    if not is_sym(x):
        return _m.floor(x)
    return wrap(z3.ToInt(to_real(x)))


def isnan(x):
    if is_sym(x):
        return False
    return _m.isnan(x)
