"""symx.symmath -- stand-in for `math` (and numpy's transcendental functions).

sqrt is characterised exactly over the reals (r >= 0 and r*r == x, radicand >= 0 as a
well-definedness side condition).  log/exp are uninterpreted functions with axioms
instantiated on the occurring arguments (listed in AXIOMS, recorded in evidence).
"""
import math as _m

import z3

from . import core
from .core import SymReal, SymInt, SymBool, is_sym, to_real, wrap, engine

pi = _m.pi
e = _m.e
inf = _m.inf
nan = _m.nan

LOG = z3.Function("log", z3.RealSort(), z3.RealSort())
EXP = z3.Function("exp", z3.RealSort(), z3.RealSort())

AXIOMS = [
    "sqrt(t) = r with r >= 0 and r*r = t (exact); side condition t >= 0",
    "exp(t) > 0; exp(0) = 1 (by constant folding); exp strictly increasing on occurring arguments",
    "log(t): side condition t > 0; log(1) = 0; strictly increasing and concave on occurring arguments "
    "((log a - log b) * b <= a - b); log(1/t) = -log t; 1 - 1/t <= log t <= t - 1; "
    "log(a*b) = log a + log b instantiated on demand (one round) for the triangle-inequality harnesses",
]


def _norm(t):
    """canonical form of an argument term (sum of monomials), so that equal polynomials written in
    different shapes share one sqrt variable / one uninterpreted-function application"""
    return z3.simplify(t, som=True)


def _state():
    eng = engine()
    st = getattr(eng, "_symmath", None)
    if st is None or st.get("path_id") is not eng.pc:
        st = dict(path_id=eng.pc, sqrt={}, log=[], exp=[])
        eng._symmath = st
    return st


def sqrt(x):
    if not is_sym(x):
        if isinstance(x, float) and x != x:
            return x
        if x < 0:
            return nan
        return _m.sqrt(x)
    eng = engine()
    t = z3.simplify(to_real(x))          # constraints are stated on the term as written
    st = _state()
    kt = _norm(t)                         # ... the memo key on its canonical polynomial form
    key = kt.get_id()
    if key in st["sqrt"]:
        return st["sqrt"][key][1]
    eng.require(t >= 0, "non-negative radicand")
    r = z3.Real(eng.fresh("sqrt"))
    eng.assume(z3.And(r >= 0, r * r == t))
    res = SymReal(eng.rounded(r)) if eng.rounding else SymReal(r)
    st["sqrt"][key] = (kt, res)
    return res


def exp(x):
    if not is_sym(x):
        return _m.exp(x)
    eng = engine()
    t = _norm(to_real(x))
    st = _state()
    y = EXP(t)
    if LEVEL == "none":
        for (t2, y2) in st["exp"]:
            if t2.eq(t):
                return SymReal(y)
        st["exp"].append((t, y))
        return SymReal(y)
    ax = [y > 0, z3.Implies(t == 0, y == 1), z3.Implies(t < 0, y < 1), z3.Implies(t > 0, y > 1)]
    for (t2, y2) in st["exp"]:
        if t2.eq(t):
            return SymReal(y)
        ax.append(z3.Implies(t < t2, y < y2))
        ax.append(z3.Implies(t2 < t, y2 < y))
    st["exp"].append((t, y))
    eng.assume(z3.And(ax))
    return SymReal(y)


def log(x):
    if not is_sym(x):
        if x <= 0:
            if x == 0:
                return -inf
            return nan
        return _m.log(x)
    eng = engine()
    t = _norm(to_real(x))
    st = _state()
    for (t2, y2) in st["log"]:
        if t2.eq(t):
            return SymReal(y2)
    eng.require(t > 0, "positive log argument")
    return SymReal(_log_occurrence(eng, st, t))


LEVEL = "full"     # "none": log/exp are plain uninterpreted functions (congruence only)


def _log_occurrence(eng, st, t):
    """register LOG(t) with the axioms instantiated against the arguments seen so far"""
    y = LOG(t)
    if LEVEL == "none":
        st["log"].append((t, y))
        return y
    ax = [z3.Implies(t == 1, y == 0), z3.Implies(t > 1, y > 0), z3.Implies(t < 1, y < 0),
          y <= t - 1, y * t >= t - 1]
    for (t2, y2) in st["log"]:
        # concavity (tangent line at the other point), valid for all positive arguments; implies monotonicity
        ax.append((y - y2) * t2 <= t - t2)
        ax.append((y2 - y) * t <= t2 - t)
        ax.append(z3.Implies(t < t2, y < y2))
        ax.append(z3.Implies(t2 < t, y2 < y))
        ax.append(z3.Implies(t == t2, y == y2))
        ax.append(z3.Implies(t * t2 == 1, y + y2 == 0))       # log(1/t) = -log(t)
    st["log"].append((t, y))
    eng.assume(z3.And(ax))
    return y


def log_product_closure():
    """instantiate log(a*b) = log(a) + log(b) for every pair of arguments seen so far (one round);
    the products become occurrences themselves, so monotonicity / concavity relate them to the rest"""
    eng = engine()
    st = _state()
    occ = list(st["log"])
    for i in range(len(occ)):
        for j in range(i, len(occ)):
            t = _norm(occ[i][0] * occ[j][0])
            if any(t2.eq(t) for (t2, _) in st["log"]):
                continue
            y = _log_occurrence(eng, st, t)
            eng.assume(y == occ[i][1] + occ[j][1])


def fabs(x):
    return abs(x)


def floor(x):
    if not is_sym(x):
        return _m.floor(x)
    return wrap(z3.ToInt(to_real(x)))


def isnan(x):
    if is_sym(x):
        return False
    return _m.isnan(x)


def pow(x, k):
    return core.sym_pow(x, k) if is_sym(x) else _m.pow(x, k)


def isfinite(x):
    if is_sym(x):
        return True
    return _m.isfinite(x)


def isinf(x):
    if is_sym(x):
        return False
    return _m.isinf(x)


def ceil(x):
    if not is_sym(x):
        return _m.ceil(x)
    return wrap(-z3.ToInt(-to_real(x)))
