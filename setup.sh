#!/bin/bash
# offline setup: install the solver wheels next to the checks (idempotent; checks self-bootstrap too)
set -e
cd "$(dirname "${BASH_SOURCE[0]}")"
/venv/bin/python - <<'PY'
import sys
sys.path.insert(0, ".")
from checks import common
common.bootstrap()
import z3
print("z3", z3.get_version_string())
PY
