#!/bin/bash
# usage: tools/seed_rerun.sh <seed dir name, e.g. C17b> [tier] [check ids ...]
# re-creates a scratch worktree of /repo HEAD, applies seeded/<name>/patch.diff, runs the checks against it
# through VERIF_REPO, removes the worktree again.
name=$1; tier=${2:-quick}; shift; shift
prop=${name:0:3}
checks=${@:-$prop}
wt=/tmp/wt_rerun_$name
git -C /repo worktree add -q --detach $wt HEAD || exit 2
(cd $wt && git apply /verif/seeded/$name/patch.diff) || { echo "patch does not apply"; git -C /repo worktree remove --force $wt; exit 2; }
for c in $checks; do
  (cd /verif && VERIF_REPO=$wt ./check $c --tier $tier > /tmp/rerun_${name}_$c.log 2>&1); rc=$?
  echo "$name: check $c ($tier): exit $rc :: $(grep -m1 -A1 '^VIOLATION' /tmp/rerun_${name}_$c.log | grep signature | cut -c1-160)"
  grep -m1 "HARNESS-ERROR" /tmp/rerun_${name}_$c.log | cut -c1-200
done
git -C /repo worktree remove --force $wt
