#!/usr/bin/env python3
"""builds /verif/seeded/RESULTS.md from the meta.json files written by tools/seed_eval.sh"""
import glob, json, os
rows = []
for d in sorted(glob.glob("/verif/seeded/C*")):
    mp = os.path.join(d, "meta.json")
    if not os.path.exists(mp):
        continue
    m = json.load(open(mp))
    name = os.path.basename(d)
    conf = m.get("confirmed", {})
    checks = m.get("checks_quick", {})
    extra = m.get("checks_other", {})
    res = []
    for c, rc in sorted(checks.items()):
        res.append("%s quick: %s" % (c, {0: "missed", 1: "VIOLATION", 3: "harness error"}.get(rc, rc)))
    for c, what in sorted(extra.items()):
        res.append("%s: %s" % (c, what))
    rows.append((name, m.get("property", name[:3]), (m.get("summary") or "").replace("|", "/").replace("\n", " ")[:260],
                 (m.get("needs") or "").replace("|", "/").replace("\n", " ")[:200],
                 "tests %s; demo %s/%s" % ("pass" if "passed" in conf.get("tests", "") and "failed" not in conf.get("tests", "") else conf.get("tests", "?"),
                                            conf.get("demo_exit_with_change"), conf.get("demo_exit_without_change")),
                 "; ".join(res)))
with open("/verif/seeded/RESULTS.md", "w") as f:
    f.write("# Seeded breaking changes: which check catches which change\n\n")
    f.write("Each change was written by a fresh sub-agent that saw only the property text and a scratch worktree. "
            "`tests pass; demo 1/0` = the 182 baseline tests pass with the change, the demonstration exits 1 with it and 0 without it "
            "(confirmed by tools/seed_eval.sh in the scratch worktree). Checks were run with VERIF_REPO pointing at the changed worktree.\n\n")
    f.write("| id | property | change | needs | confirmed | checks |\n|---|---|---|---|---|---|\n")
    for r in rows:
        f.write("| %s | %s | %s | %s | %s | %s |\n" % r)
ref = []
for d in sorted(glob.glob("/verif/seeded/refactor_*")):
    mp = os.path.join(d, "meta.json")
    if not os.path.exists(mp):
        continue
    m = json.load(open(mp))
    ref.append((os.path.basename(d), (m.get("summary") or "").replace("|", "/").replace("\n", " ")[:300],
                "tests %s; equivalence script exit %s" % ("pass" if "passed" in m.get("confirmed", {}).get("tests", "") else "?",
                                                         m.get("confirmed", {}).get("equivalence_script_exit")),
                "; ".join("%s quick: exit %s" % (c, rc) for c, rc in sorted(m.get("checks_quick", {}).items()))))
with open("/verif/seeded/RESULTS.md", "a") as f:
    f.write("\n\n# Behaviour-preserving refactorings: every check must stay quiet\n\n")
    f.write("| id | refactoring | confirmed | checks (final run) |\n|---|---|---|---|\n")
    for r in ref:
        f.write("| %s | %s | %s | %s |\n" % r)
print(len(rows), "rows", len(ref), "refactorings")
