#!/bin/bash
# usage: tools/seed_eval.sh <Cnn> [suffix] [check ids ...]
# Confirms a seeded change in the scratch worktree /tmp/wt_<Cnn><suffix> (tests pass, demo fails with / passes
# without the change), stores it under /verif/seeded/<Cnn><suffix>/ and runs the quick check(s) against the
# changed tree through VERIF_REPO (never touching /repo).
id=$1; suf=${2:-}; shift; shift
wt=/tmp/wt_$id$suf
checks=${@:-$id}
cd $wt || exit 2
out=/verif/seeded/$id$suf; mkdir -p $out
git diff -- opfython > $out/patch.diff
[ -s $out/patch.diff ] || { echo "no change applied in $wt"; exit 2; }
cp demo_$id.py $out/demo.py 2>/dev/null
t=$(/venv/bin/python -m pytest -q -p no:cacheprovider 2>&1 | tail -1)
/venv/bin/python demo_$id.py > $out/demo_with.log 2>&1; with=$?
# (not git stash: the stash stack is shared by all worktrees of /repo)
git apply -R $out/patch.diff
/venv/bin/python demo_$id.py > $out/demo_without.log 2>&1; without=$?
git apply $out/patch.diff
echo "tests: $t | demo with change: exit $with | without: exit $without"
res=""
for c in $checks; do
  (cd /verif && VERIF_REPO=$wt ./check $c --tier quick > $out/check_$c.log 2>&1); rc=$?
  v=$(grep -c "^VIOLATION" $out/check_$c.log)
  echo "check $c: exit $rc, $v VIOLATION line(s): $(grep -m2 -A1 '^VIOLATION' $out/check_$c.log | grep signature | cut -c1-200)"
  grep -m2 "HARNESS-ERROR" $out/check_$c.log | cut -c1-300
  res="$res $c:$rc"
done
python3 - "$id" "$suf" "$t" "$with" "$without" "$res" <<'PY'
import json, sys, os
id, suf, t, w, wo, res = sys.argv[1:7]
wt = "/tmp/wt_%s%s" % (id, suf)
meta = {}
try:
    meta = json.load(open(os.path.join(wt, "meta_%s.json" % id)))
except Exception as e:
    meta = {"property": id}
meta["confirmed"] = dict(tests=t, demo_exit_with_change=int(w), demo_exit_without_change=int(wo))
meta["checks_quick"] = {r.split(":")[0]: int(r.split(":")[1]) for r in res.split()}
json.dump(meta, open("/verif/seeded/%s%s/meta.json" % (id, suf), "w"), indent=1)
PY
