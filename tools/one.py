"""dev helper: run one configuration of a check module and print its stats."""
import sys, time, json
sys.path.insert(0, '/verif/.deps'); sys.path.insert(0, '/verif')
from checks import common
common.bootstrap()
mod, fn = sys.argv[1], sys.argv[2]
cfg = json.loads(sys.argv[3])
cfg.setdefault('deadline_s', 120)
t = time.time()
r = common.run_parallel(mod, fn, [cfg, dict(cfg, _dup=1)])[0]
print(json.dumps(r['stats']), 'wall', round(time.time() - t, 1), 'err', r['error'], 'viol', r['n_violations'],
      [v['name'] for v in r['violations'][:5]], 'unk', r['n_unknown'], r['unknowns'][:3], 'ill', r['illdefined'][:2], 'exh', r['exhaustive'])
