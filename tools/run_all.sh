#!/bin/bash
# usage: tools/run_all.sh quick|thorough [ids...]   -- runs the checks one after the other, prints timing
tier=${1:-quick}; shift
ids=${@:-C01 C02 C03 C04 C05 C06 C07 C08 C09 C10 C11 C12 C13 C14 C15 C16 C17 C18 C19 C20}
cd "$(dirname "$0")/.."
for id in $ids; do
  s=$(date +%s)
  ./check $id --tier $tier > /tmp/runall_$id.log 2>&1; rc=$?
  e=$(date +%s)
  echo "$id rc=$rc wall=$((e-s))s :: $(grep -E "^$id tier" /tmp/runall_$id.log | cut -c1-260)"
  grep -E "^(VIOLATION|KNOWN-FINDING|HARNESS-ERROR)" /tmp/runall_$id.log | cut -c1-300
done
