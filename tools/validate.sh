#!/bin/bash
# validates MANIFEST.json and every evidence file against the published schemas
python3-vt - <<'PY'
import json, jsonschema, glob, sys
ok = True
try:
    jsonschema.validate(json.load(open('/verif/MANIFEST.json')), json.load(open('/root/.vp/MANIFEST.schema.json')))
    print("MANIFEST ok")
except Exception as e:
    ok = False; print("MANIFEST INVALID", str(e)[:300])
sch = json.load(open('/root/.vp/EVIDENCE.schema.json'))
m = json.load(open('/verif/MANIFEST.json'))
for c in m['checks']:
    p = '/verif/' + c['evidence_file']
    try:
        ev = json.load(open(p)); jsonschema.validate(ev, sch)
        cov = ev['coverage']
        print(c['property_id'], ev['tier'], 'states', cov.get('states'), 'traces', cov.get('traces_validated_against_impl'),
              'exhaustive', cov.get('exhaustive'), 'violations', ev.get('violations'), 'wall', ev['wall_s'])
    except Exception as e:
        ok = False; print(c['property_id'], "INVALID", str(e)[:200])
sys.exit(0 if ok else 1)
PY
