#!/bin/bash
# usage: tools/refactor_eval.sh <Cnn> <check ids...>  -- behaviour-preserving refactoring in /tmp/wt_<Cnn>r: every check must exit 0
id=$1; shift
wt=/tmp/wt_${id}r
out=/verif/seeded/refactor_$id; mkdir -p $out
(cd $wt && git diff -- opfython > $out/patch.diff && cp equiv_$id.py $out/equiv.py 2>/dev/null; cp meta_$id.json $out/meta.json 2>/dev/null)
t=$(cd $wt && /venv/bin/python -m pytest -q -p no:cacheprovider 2>&1 | tail -1)
e=$(cd $wt && timeout 1200 /venv/bin/python equiv_$id.py > $out/equiv.log 2>&1; echo $?)
echo "refactor $id: tests: $t | equiv exit $e"
res=""
for c in "$@"; do
  (cd /verif && VERIF_REPO=$wt ./check $c --tier quick > $out/check_$c.log 2>&1); rc=$?
  echo "  check $c: exit $rc $(grep -m1 -E '^(VIOLATION|HARNESS-ERROR)' $out/check_$c.log | cut -c1-300)"
  res="$res $c:$rc"
done
python3 - "$id" "$t" "$e" "$res" <<'PY'
import json, sys
id, t, e, res = sys.argv[1:5]
p = "/verif/seeded/refactor_%s/meta.json" % id
try:
    m = json.load(open(p))
except Exception:
    m = {"property": id}
m["kind"] = "behaviour-preserving refactoring (the property still holds; every check must stay quiet)"
m["confirmed"] = dict(tests=t, equivalence_script_exit=int(e))
m["checks_quick"] = {r.split(":")[0]: int(r.split(":")[1]) for r in res.split()}
json.dump(m, open(p, "w"), indent=1)
PY
