#!/bin/bash
# usage: tools/refactor_rerun.sh [refactor ids...]  -- re-applies each behaviour-preserving refactoring kept under
# seeded/refactor_<id>/ to a scratch worktree and re-runs the quick checks recorded in its meta.json (all must exit 0)
ids=${@:-$(ls -d /verif/seeded/refactor_* | sed 's/.*refactor_//')}
for id in $ids; do
  wt=/tmp/wt_refrerun_$id
  git -C /repo worktree add -q --detach $wt HEAD || exit 2
  (cd $wt && git apply /verif/seeded/refactor_$id/patch.diff) || { echo "$id: patch does not apply"; git -C /repo worktree remove --force $wt; continue; }
  checks=$(python3 -c "import json;print(' '.join(sorted(json.load(open('/verif/seeded/refactor_$id/meta.json'))['checks_quick'])))")
  res=""
  for c in $checks; do
    (cd /verif && VERIF_REPO=$wt ./check $c --tier quick > /verif/seeded/refactor_$id/check_$c.log 2>&1); rc=$?
    echo "refactor $id: check $c: exit $rc $(grep -m1 -E '^(VIOLATION|HARNESS-ERROR)' /verif/seeded/refactor_$id/check_$c.log | cut -c1-300)"
    res="$res $c:$rc"
  done
  python3 - "$id" "$res" <<'PY'
import json, sys
id, res = sys.argv[1:3]
p = "/verif/seeded/refactor_%s/meta.json" % id
m = json.load(open(p))
m["checks_quick"] = {r.split(":")[0]: int(r.split(":")[1]) for r in res.split()}
json.dump(m, open(p, "w"), indent=1)
PY
  git -C /repo worktree remove --force $wt
done
