#!/usr/bin/env python3
"""regenerates MANIFEST.json from the table below (kept in one place so it stays valid)."""
import json

CHECKS = {
 "C01": ("bounded symbolic execution (z3) of the real SupervisedOPF.fit on symbolic weight matrices and labels; leaf obligations against an explicit minimax-path oracle",
         "for every symmetric weight matrix in [0,FLOAT_MAX), every label pattern and both weight branches with n<=4 (quick) / n<=5 (thorough) training samples, all clauses of the statement hold on every feasible path; nothing is claimed for n>5", "4 C01"),
 "C02": ("bounded symbolic execution (z3) of _find_prototypes/fit; MST cycle-property and Kruskal-uniqueness oracles",
         "for every symmetric weight matrix (all tie patterns, and the all-distinct case) and label pattern with n<=4 / n<=5", "4 C02"),
 "C03": ("bounded symbolic execution (z3) of fit followed by predict on symbolic query distance vectors; exhaustive-minimiser oracle",
         "end-to-end: every training set with n<=4 / n<=5 and batches of 1-2 queries, both weight branches, supervised and semi-supervised; state-injected: arbitrary forests with n<=5 / n<=6 nodes; also on an object that was fitted on other symbolic data and used for one prediction before (n=2 / n<=3)", "4 C03"),
 "C04": ("bounded symbolic execution (z3) of fit+predict(X_train) under tie-free weights; KNN part: symbolic clustering with force_prototype",
         "supervised: n<=4 / n<=5; KNN-supervised: forced clustering from an arbitrary clean graph state (n<=4 / n<=5) and the real fit end to end on a symbolic distance table (n=3 / n<=4)", "4 C04"),
 "C05": ("bounded symbolic execution (z3) of the real Heap: inductive step from an arbitrary invariant-satisfying symbolic state per operation, base case, and bounded operation histories (re-insertion of returned identifiers included) with a ghost multiset",
         "inductive: every capacity 1..7 (quick) / 1..15 (thorough), both policies, every fill level, every operation with symbolic arguments => histories of any length for those capacities; nothing claimed for larger capacities", "4 C05"),
 "C11": ("bounded symbolic execution (z3) of paired fits: adjacent transpositions of the training order and order-isomorphic weight matrices, tie-free inputs",
         "n<=4 (quick) / n<=5 (thorough) training samples and one symbolic query", "4 C11"),
 "C15": ("bounded symbolic execution (z3) of SemiSupervisedOPF.fit on symbolic weights; minimax, some-MST and supervised-equivalence oracles",
         "labeled+unlabeled <= 4 (quick) / 5 (thorough)", "4 C15"),
 "C20": ("bounded symbolic execution (z3) of opfython.math.general on symbolic label/prediction vectors and matrices against the definitions (LIA/NRA obligations)",
         "vectors of length <= 5, K <= 3 (quick) / <= 7, K <= 4 (thorough); normalize up to 3x2 / 5x2", "4 C20"),
 "C09": ("bounded symbolic execution (z3) of the three predict implementations from an injected symbolic fitted state over a history of five predict calls with the same samples at different batch positions",
         "n<=3 (quick) / n<=4 (thorough) training samples, k<=2/3, batches of 1-2 (thorough: 3)", "4 C09"),
 "C12": ("bounded symbolic execution (z3) of KNNSubgraph.create_arcs (also after an earlier call), calculate_pdf (exp uninterpreted) and eliminate_maxima_height against declarative post-conditions",
         "create_arcs n<=3 k<=4, n=4 k=1 (quick) / n=4 k<=5 (thorough); pdf n<=4/5", "4 C12"),
 "C13": ("bounded symbolic execution (z3) of both _clustering implementations and propagate_labels from an arbitrary clean k-NN graph state (symbolic densities with ties, every neighbour choice)",
         "unit: n<=3 all k, n=4 k=1 (quick) / n=4 k<=3, n=5 k=1 (thorough); end to end: real fit on n=3 (quick) / n<=4 (thorough) symbolic tables", "4 C13"),
 "C14": ("bounded symbolic execution (z3) of KNNSupervisedOPF.predict / UnsupervisedOPF.predict from an injected symbolic fitted state against the exhaustive k-nearest max-min rule (exp uninterpreted)",
         "n<=4, k<=2 (quick) / n<=5, k<=3 (thorough); also with samples standing for permuted rows of a larger table (n<=3, k<=2 / n<=4, k<=3)", "4 C14"),
 "C16": ("bounded symbolic execution (z3) of the k-selection loops with the criterion replaced by a nondeterministic stub (over-approximates every data set)",
         "max_k<=5 (quick) / <=8 (thorough), all min_k", "4 C16"),
 "C06": ("symbolic execution (z3, non-linear real arithmetic + uninterpreted log/exp) of all 47 metric bodies, reached through the registry and through the model option, against an independent table of closed forms; z3 string query for registry = whitelist",
         "every vector of length 1..4 (quick) / 1..6 (thorough) in the metric's domain; equality of the formulas over the reals", "4 C06"),
 "C08": ("symbolic execution (z3 NRA) of the metric bodies for each axiom claimed in the fixed axiom table; sum-type metrics decided on their coordinate kernel with the decomposition checked against the code; floating-point robustness by the standard rounding model with replay of every candidate on the real njit code",
         "lengths 1..3 (quick) / 1..4 (thorough), kernels lifted up to 4/8; triangle n<=2/3; undecided queries are listed, never counted", "4 C08"),
 "C07": ("symbolic execution (z3) of all 47 metrics and of fit/predict of the four models on caller-owned symbolic arrays with a write log in the numpy model; QF_FP (Float64) query decides whether a logged write can change the stored value; candidates replayed on the real package (bytes before/after)",
         "metrics: vectors of length 1..2 (quick) / 1..3 (thorough); models: 3 training samples + 1 query, one feature, decorated and undecorated metric; refit histories (fit, [predict,] fit[, predict]) on 2-3 (quick) / 2-4 (thorough) samples vs a never-used object", "4 C07"),
 "C10": ("bounded symbolic execution (z3) of the whole pipeline pre_compute_distance -> file -> _read_distances -> fit/predict next to the on-the-fly pipeline inside one symbolic path, on an asymmetric symbolic distance table with every injective choice of train/test rows",
         "datasets of <= 4 rows (quick) / <= 5 (thorough); supervised, semi-supervised, unsupervised; .txt and .csv; get_distances raw and normalised", "4 C10"),
 "C18": ("bounded symbolic execution (z3) of split / split_with_index / merge with the RNG as a nondeterministic contract stub, and of the converter -> loader -> parser -> Subgraph(from_file) pipeline on a symbolic typed binary file through a virtual file system; exists-a-bijection oracle",
         "split: n<=4 rows (quick) / n<=5 (thorough), symbolic percentage and seed, every permutation; convert: n<=3 / n<=4 samples, three formats", "4 C18"),
 "C19": ("symbolic execution (z3) of save -> real pickle -> load -> predict on symbolically fitted twin models (symbolic scalars pickle their SMT term); loaded vs saved state compared term by term; plus concrete round trips of all 47 metrics x 4 models on the real package",
         "4 model kinds x 2 weight branches, 3 (thorough: 4) training samples, one symbolic query", "4 C19"),
 "C17": ("bounded symbolic execution (z3) of SupervisedOPF.learn (RNG draw symbolic, forked over every swap choice; numpy view/copy aliasing modelled), predict's relevance marking and prune, on symbolic weights with identifiable rows",
         "train<=3-4, validation<=2, iterations<=2 (quick) / <=3 (thorough); one recorded known finding (validation set losing a class)", "4 C17"),
}

def main():
    checks = []
    for pid, (tech, text, ref) in sorted(CHECKS.items()):
        checks.append(dict(
            property_id=pid,
            quick_cmd="./check %s --tier quick" % pid,
            thorough_cmd="./check %s --tier thorough" % pid,
            evidence_file="evidence/%s.json" % pid,
            replay_cmd_template="./check %s --replay {path}" % pid,
            engine="symx",
            level_claimed=dict(category="model_checking", text=text, design_ref="DESIGN.md section " + ref),
            level_note="trusted base: symx numpy/math/file model (validated per run by replaying path witnesses, and for "
                       "C01/C04/C06/C13 whole concrete runs on the repository's data, on the real package), z3 5.1.0; reals instead of "
                       "floats where stated; an exhausted budget or an `unknown` answer sets exhaustive=false and is never counted as success",
            technique=tech))
    man = dict(
        version=1,
        setup_cmd="./setup.sh",
        hooks=dict(guard="OPFYTHON_VERIF", enable="no hooks are needed: the checks load /repo's source into a symbolic twin",
                   baseline_off_cmd="cd /repo && /venv/bin/python -m pytest -ra -q -p no:cacheprovider --timeout=900 --continue-on-collection-errors",
                   source_commits=[], add_only=True),
        engines=[dict(name="symx", path="symx/", serves_properties=sorted(CHECKS),
                      kind_free_text="symbolic execution of the repository's own Python source (twin loader) with z3-decided branches and leaf obligations; counterexamples replayed on the real package")],
        checks=checks,
        notes="see DESIGN.md",
        not_applicable=[dict(property_id="C%02d" % i, reason="check not built yet (work in progress)") for i in range(1, 21) if "C%02d" % i not in CHECKS],
    )
    json.dump(man, open("MANIFEST.json", "w"), indent=1)

main()
