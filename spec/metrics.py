"""Closed forms of the 47 metrics, written from the surveys the library follows (Cha 2007;
Prasath et al. 2017) and independent of the repository's source.  They are deliberately written in a
different *shape* from the code (per-coordinate sums, expanded squares, 1/a + 1/b instead of
(a+b)/(ab), ...) so that the solver has something to prove.

Each closed form is a function  f(x, y, A)  over an abstract algebra A (numeric or z3), where x, y
are lists of scalars.  DOMAIN gives the metric's domain: R = all reals, P = componentwise >= 0
(zeros allowed: the library's EPSILON shift makes them regular), D = P with sum 1.
DECORATED lists the metrics documented as "arguments shifted by EPSILON" (the closed form is then
evaluated at x + EPSILON, y + EPSILON).
"""

EPSILON = 1e-20
MAX_ARC_WEIGHT = 100000


def _S(terms):
    acc = terms[0]
    for t in terms[1:]:
        acc = acc + t
    return acc


def _sq(t):
    return t * t


def sqeuclid(x, y, A):
    return _S([_sq(a - b) for a, b in zip(x, y)])


CLOSED = {
    "additive_symmetric": lambda x, y, A: 2 * _S([_sq(a - b) * (1 / a + 1 / b) for a, b in zip(x, y)]),
    "average_euclidean": lambda x, y, A: A.sqrt(sqeuclid(x, y, A) / len(x)),
    "bhattacharyya": lambda x, y, A: -A.log(_S([A.sqrt(a * b) for a, b in zip(x, y)])),
    "bray_curtis": lambda x, y, A: _S([A.abs(a - b) for a, b in zip(x, y)]) / (_S(list(x)) + _S(list(y))),
    "canberra": lambda x, y, A: _S([A.abs(a - b) / (A.abs(a) + A.abs(b)) for a, b in zip(x, y)]),
    "chebyshev": lambda x, y, A: A.maxl([A.abs(a - b) for a, b in zip(x, y)]),
    "chi_squared": lambda x, y, A: _S([_sq(a - b) / (a + b) for a, b in zip(x, y)]) / 2,
    "chord": lambda x, y, A: A.sqrt(2 * (1 - _S([a * b for a, b in zip(x, y)]) /
                                         (A.sqrt(_S([a * a for a in x])) * A.sqrt(_S([b * b for b in y]))))),
    "clark": lambda x, y, A: A.sqrt(_S([_sq(a - b) / _sq(a + b) for a, b in zip(x, y)])),
    "cosine": lambda x, y, A: 1 - _S([a * b for a, b in zip(x, y)]) /
                              (A.sqrt(_S([a * a for a in x])) * A.sqrt(_S([b * b for b in y]))),
    "dice": lambda x, y, A: sqeuclid(x, y, A) / (_S([a * a for a in x]) + _S([b * b for b in y])),
    "divergence": lambda x, y, A: 2 * _S([_sq(a - b) / _sq(a + b) for a, b in zip(x, y)]),
    "euclidean": lambda x, y, A: A.sqrt(sqeuclid(x, y, A)),
    "gaussian": lambda x, y, A: A.exp(-A.sqrt(sqeuclid(x, y, A))),
    "gower": lambda x, y, A: _S([A.abs(a - b) for a, b in zip(x, y)]) / len(x),
    "hamming": lambda x, y, A: _S([A.ind_ne(a, b) for a, b in zip(x, y)]),
    "hassanat": lambda x, y, A: _S([
        A.ite_ge0(A.min(a, b),
                  1 - (1 + A.min(a, b)) / (1 + A.max(a, b)),
                  1 - (1 + A.min(a, b) + A.abs(A.min(a, b))) / (1 + A.max(a, b) + A.abs(A.min(a, b))))
        for a, b in zip(x, y)]),
    "hellinger": lambda x, y, A: A.sqrt(2 * _S([a + b - 2 * A.sqrt(a) * A.sqrt(b) for a, b in zip(x, y)])),
    "jaccard": lambda x, y, A: sqeuclid(x, y, A) / (_S([a * a for a in x]) + _S([b * b for b in y]) -
                                                   _S([a * b for a, b in zip(x, y)])),
    "jeffreys": lambda x, y, A: _S([(a - b) * A.log(a / b) for a, b in zip(x, y)]),
    "jensen": lambda x, y, A: _S([(a * A.log(a) + b * A.log(b)) / 2 - ((a + b) / 2) * A.log((a + b) / 2)
                                  for a, b in zip(x, y)]) / 2,
    "jensen_shannon": lambda x, y, A: (_S([a * A.log((2 * a) / (a + b)) for a, b in zip(x, y)]) +
                                       _S([b * A.log((2 * b) / (a + b)) for a, b in zip(x, y)])) / 2,
    "k_divergence": lambda x, y, A: _S([a * A.log((2 * a) / (a + b)) for a, b in zip(x, y)]),
    "kulczynski": lambda x, y, A: _S([A.abs(a - b) for a, b in zip(x, y)]) / _S([A.min(a, b) for a, b in zip(x, y)]),
    "kullback_leibler": lambda x, y, A: _S([a * A.log(a / b) for a, b in zip(x, y)]),
    "log_euclidean": lambda x, y, A: MAX_ARC_WEIGHT * A.log(A.sqrt(sqeuclid(x, y, A)) + 1),
    "log_squared_euclidean": lambda x, y, A: MAX_ARC_WEIGHT * A.log(sqeuclid(x, y, A) + 1),
    "lorentzian": lambda x, y, A: _S([A.log(1 + A.abs(a - b)) for a, b in zip(x, y)]),
    "manhattan": lambda x, y, A: _S([A.abs(a - b) for a, b in zip(x, y)]),
    "matusita": lambda x, y, A: A.sqrt(_S([a + b - 2 * A.sqrt(a) * A.sqrt(b) for a, b in zip(x, y)])),
    "max_symmetric": lambda x, y, A: A.max(_S([_sq(a - b) / a for a, b in zip(x, y)]),
                                           _S([_sq(a - b) / b for a, b in zip(x, y)])),
    "mean_censored_euclidean": lambda x, y, A: A.sqrt(sqeuclid(x, y, A) / _S([A.ind_ne(a * a + b * b, 0) for a, b in zip(x, y)])),
    "min_symmetric": lambda x, y, A: A.min(_S([_sq(a - b) / a for a, b in zip(x, y)]),
                                           _S([_sq(a - b) / b for a, b in zip(x, y)])),
    "neyman": lambda x, y, A: _S([_sq(a - b) / a for a, b in zip(x, y)]),
    "non_intersection": lambda x, y, A: _S([A.abs(a - b) for a, b in zip(x, y)]) / 2,
    "pearson": lambda x, y, A: _S([_sq(a - b) / b for a, b in zip(x, y)]),
    "sangvi": lambda x, y, A: 2 * _S([_sq(a - b) / (a + b) for a, b in zip(x, y)]),
    "soergel": lambda x, y, A: _S([A.abs(a - b) for a, b in zip(x, y)]) / _S([A.max(a, b) for a, b in zip(x, y)]),
    "squared": lambda x, y, A: _S([_sq(a - b) / (a + b) for a, b in zip(x, y)]),
    "squared_chord": lambda x, y, A: _S([a + b - 2 * A.sqrt(a) * A.sqrt(b) for a, b in zip(x, y)]),
    "squared_euclidean": lambda x, y, A: sqeuclid(x, y, A),
    "statistic": lambda x, y, A: _S([(a - b) / (a + b) for a, b in zip(x, y)]),
    "topsoe": lambda x, y, A: _S([a * A.log((2 * a) / (a + b)) + b * A.log((2 * b) / (a + b)) for a, b in zip(x, y)]),
    "vicis_symmetric1": lambda x, y, A: _S([_sq(a - b) / _sq(A.min(a, b)) for a, b in zip(x, y)]),
    "vicis_symmetric2": lambda x, y, A: _S([_sq(a - b) / A.min(a, b) for a, b in zip(x, y)]),
    "vicis_symmetric3": lambda x, y, A: _S([_sq(a - b) / A.max(a, b) for a, b in zip(x, y)]),
    "vicis_wave_hedges": lambda x, y, A: _S([A.abs(a - b) / A.min(a, b) for a, b in zip(x, y)]),
}

# metrics documented as shifted by EPSILON (everything that divides or takes logarithms of its arguments)
DECORATED = {
    "additive_symmetric", "bhattacharyya", "bray_curtis", "canberra", "chi_squared", "chord", "clark", "cosine",
    "dice", "divergence", "hassanat", "jaccard", "jeffreys", "jensen", "jensen_shannon", "k_divergence",
    "kulczynski", "kullback_leibler", "max_symmetric", "mean_censored_euclidean", "min_symmetric", "neyman",
    "pearson", "sangvi", "soergel", "squared", "statistic", "topsoe", "vicis_symmetric1", "vicis_symmetric2",
    "vicis_symmetric3", "vicis_wave_hedges",
}

R_DOMAIN = {"euclidean", "average_euclidean", "manhattan", "chebyshev", "gower", "non_intersection", "hamming",
            "lorentzian", "log_euclidean", "squared_euclidean", "log_squared_euclidean", "hassanat", "gaussian"}

DOMAIN = {name: ("R" if name in R_DOMAIN else "P") for name in CLOSED}

# C08 axiom table: F finite, S symmetric, N non-negative, Z zero self-distance, T triangle inequality.
# A claim suffixed with "@D" holds on the probability simplex only.
AXIOMS = {}
for _n in ("euclidean", "average_euclidean", "manhattan", "chebyshev", "gower", "non_intersection", "hamming",
           "lorentzian", "log_euclidean"):
    AXIOMS[_n] = ["F", "S", "N", "Z", "T"]
for _n in ("squared_euclidean", "log_squared_euclidean", "hassanat", "mean_censored_euclidean"):
    AXIOMS[_n] = ["F", "S", "N", "Z"]
AXIOMS["gaussian"] = ["F", "S", "N"]
for _n in ("canberra", "soergel", "hellinger", "matusita"):
    AXIOMS[_n] = ["F", "S", "N", "Z", "T"]
for _n in ("additive_symmetric", "bray_curtis", "chi_squared", "chord", "clark", "cosine", "dice", "divergence",
           "jaccard", "jeffreys", "jensen", "jensen_shannon", "topsoe", "kulczynski", "max_symmetric",
           "min_symmetric", "sangvi", "squared", "squared_chord", "vicis_symmetric1", "vicis_symmetric2",
           "vicis_symmetric3", "vicis_wave_hedges"):
    AXIOMS[_n] = ["F", "S", "N", "Z"]
for _n in ("neyman", "pearson"):
    AXIOMS[_n] = ["F", "N", "Z"]
for _n in ("kullback_leibler", "k_divergence"):
    AXIOMS[_n] = ["F", "Z", "N@D"]
AXIOMS["bhattacharyya"] = ["F", "S", "N@D", "Z@D"]
AXIOMS["statistic"] = ["F", "Z"]

TRIANGLE = [n for n, a in AXIOMS.items() if "T" in a]

# metrics that are a plain sum over coordinates of a two-argument kernel (value on n-vectors = sum of the
# values on the n one-coordinate sub-vectors; gower: that sum divided by n).  For these, S / N / Z / T are
# proved for the kernel (n = 1) and lifted; the decomposition itself is checked against the code for each n.
SUM_KERNEL = {
    "additive_symmetric", "canberra", "chi_squared", "divergence", "hamming", "hassanat", "jeffreys", "jensen",
    "jensen_shannon", "k_divergence", "kullback_leibler", "lorentzian", "manhattan", "neyman", "non_intersection",
    "pearson", "sangvi", "squared", "squared_chord", "squared_euclidean", "statistic", "topsoe",
    "vicis_symmetric1", "vicis_symmetric2", "vicis_symmetric3", "vicis_wave_hedges", "gower",
}
assert set(AXIOMS) == set(CLOSED) and len(CLOSED) == 47


class NumAlgebra:
    """plain float evaluation (conformance gate / replays)"""
    import math as _m

    def sqrt(self, t):
        return self._m.sqrt(t)

    def log(self, t):
        return self._m.log(t)

    def exp(self, t):
        return self._m.exp(t)

    def abs(self, t):
        return abs(t)

    def max(self, a, b):
        return a if a >= b else b

    def min(self, a, b):
        return a if a <= b else b

    def maxl(self, ts):
        return max(ts)

    def ind_ne(self, a, b):
        return 1 if a != b else 0

    def ite_ge0(self, c, a, b):
        return a if c >= 0 else b


def evaluate(name, x, y):
    """numeric value of the closed form (with the documented EPSILON shift)"""
    if name in DECORATED:
        x = [v + EPSILON for v in x]
        y = [v + EPSILON for v in y]
    return CLOSED[name](list(x), list(y), NumAlgebra())
